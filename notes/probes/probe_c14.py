import boot, jedi, os, signal, time, pickle
jedi.settings.cache_directory = '/tmp/scratch/jcache3'
from jedi.api.environment import create_environment
import jedi.inference.compiled.subprocess as sp
env = create_environment('/venv/bin/python', safe=False)
code = "import math, _socket, itertools\nmath.sq"
def q():
    s = jedi.Script(code, environment=env)
    return [c.name for c in s.complete()]
print('baseline', q())
nreq = [0]
orig_send = sp.CompiledSubprocess._send
def counting(self, *a, **k):
    nreq[0] += 1
    return orig_send(self, *a, **k)
sp.CompiledSubprocess._send = counting
q(); print('requests per query', nreq[0])
# kill before request k
for phase in ('before', 'after_send'):
  for k in range(1, 6):
    nreq[0] = 0
    def faulty(self, *a, **kw):
        nreq[0] += 1
        if nreq[0] == k:
            p = self._get_process()
            if phase == 'before':
                p.kill(); p.wait()
            else:
                # kill after the send: patch pickle_dump once
                od = sp.pickle_dump
                def pd(data, f, proto):
                    od(data, f, proto); p.kill(); p.wait()
                sp.pickle_dump = pd
                try: return orig_send(self, *a, **kw)
                finally: sp.pickle_dump = od
        return orig_send(self, *a, **kw)
    sp.CompiledSubprocess._send = faulty
    t = time.time()
    try: r = q(); out = 'OK %s' % r
    except Exception as e: out = 'EXC %s' % type(e).__name__
    sp.CompiledSubprocess._send = orig_send
    try: r2 = q()
    except Exception as e: r2 = 'EXC2 %s %s' % (type(e).__name__, str(e)[:80])
    print(phase, k, out, '| next:', r2, '%.2fs' % (time.time()-t))
# zombies
import subprocess
print(subprocess.run("ps -o pid,stat,cmd --ppid %d" % os.getpid(), shell=True, capture_output=True, text=True).stdout)
print('fds', len(os.listdir('/proc/self/fd')))
