import sys, json, random
import boot, jedi
jedi.settings.cache_directory = sys.argv[2]
f = sys.argv[1]
src = open(f).read()
lines = src.split('\n')
rnd = random.Random(7)
# perturb allocation
junk = [object() for _ in range(int(sys.argv[3]))]
s = jedi.Script(src, path=f)
out = []
poss = []
for _ in range(40):
    l = rnd.randrange(len(lines)); c = rnd.randint(0, len(lines[l])); poss.append((l+1, c))
def ser(x):
    return [x.name, x.type, str(x.module_path), x.line, x.column, x.full_name, x.description]
for (l, c) in poss:
    for m in ('infer', 'goto', 'complete', 'get_references', 'get_signatures', 'help'):
        try:
            r = getattr(s, m)(l, c)
            r = [ser(x) for x in r]
            if m == 'goto': r = sorted(r, key=repr)
            if m == 'complete': r = r[:60]
        except Exception as e:
            r = 'EXC ' + type(e).__name__
        out.append([l, c, m, r])
print(json.dumps(out))
