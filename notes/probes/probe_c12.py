import boot, jedi, os, sys, shutil, tempfile, py_compile
d = tempfile.mkdtemp(dir='/tmp/scratch'); jedi.settings.cache_directory = os.path.join(d, 'cache')
proj = os.path.join(d, 'p'); sent = os.path.join(d, 'sent'); os.makedirs(sent)
def body(name): return 'open(%r, "w").close()\nVALUE_%s = 1\ndef func_%s(): pass\n' % (os.path.join(sent, name), name, name)
files = ['conftest.py', 'setup.py', 'sitecustomize.py', 'usercustomize.py', 'gi.py', 'gi2/__init__.py', 'plainmod.py', 'pkg/__init__.py', 'pkg/sub.py', 'manage.py']
for f in files:
    p = os.path.join(proj, f); os.makedirs(os.path.dirname(p), exist_ok=True)
    open(p, 'w').write(body(f.replace('/', '_').replace('.py', '')) + ('# DJANGO_SETTINGS_MODULE\n' if f == 'manage.py' else ''))
open(os.path.join(proj, 'evil.pth'), 'w').write('import plainmod\n')
# sourceless pyc module
srcp = os.path.join(proj, 'ghost.py'); open(srcp, 'w').write(body('ghost'))
py_compile.compile(srcp, cfile=os.path.join(proj, 'ghost.pyc')); os.remove(srcp)
before = (sorted(sys.modules), list(sys.path), os.getcwd(), dict(os.environ))
for opts in ({}, {'sys_path': [proj]}, {'added_sys_path': [proj]}, {'smart_sys_path': False, 'added_sys_path': [proj]}):
    P = jedi.Project(proj, **opts)
    for code in ('import gi\ngi.', 'import conftest\nconftest.func_', 'import sitecustomize, plainmod, ghost\nghost.', 'from pkg import sub\nsub.', 'from pkg.sub import *\nfunc_', 'import setup\nsetup.', 'import gi.repository\ngi.repository.'):
        s = jedi.Script(code, path=os.path.join(proj, 'main.py'), project=P)
        res = {}
        for m in ('complete', 'infer', 'goto', 'get_references', 'help', 'get_signatures', 'get_names'):
            try: r = getattr(s, m)(); res[m] = len(r)
            except Exception as e: res[m] = type(e).__name__
        print(opts and list(opts), repr(code[:30]), res, 'SENT:', os.listdir(sent))
    list(P.search('func_plainmod')); list(P.complete_search('VAL'))
after = (sorted(sys.modules), list(sys.path), os.getcwd(), dict(os.environ))
print('host state same:', [a == b for a, b in zip(before, after)], [m for m in after[0] if m not in before[0]][:10])
print('sentinels', os.listdir(sent))
shutil.rmtree(d)
