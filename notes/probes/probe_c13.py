import boot, jedi, collections
from jedi import settings
jedi.settings.cache_directory = '/tmp/scratch/jcache3'
calls = collections.Counter()
def mk():
    class Desc:
        def __get__(self, obj, typ=None):
            calls['Desc.__get__'] += 1; return 42
    class DataDesc:
        def __get__(self, obj, typ=None):
            calls['DataDesc.__get__'] += 1; return 'x'
        def __set__(self, obj, v): pass
    class Meta(type):
        @property
        def mprop(cls):
            calls['Meta.mprop'] += 1; return 1
    class Base:
        @property
        def bprop(self):
            calls['Base.bprop'] += 1; return []
    class C(Base, metaclass=Meta):
        d = Desc(); dd = DataDesc()
        def __init__(self): self.plain = {'k': [Base()]}; self.n = 3
        @property
        def prop(self):
            calls['C.prop'] += 1; return 'str'
        def __getitem__(self, i):
            calls['C.__getitem__'] += 1; return 1.0
        def __iter__(self):
            calls['C.__iter__'] += 1; return iter([1])
        def __call__(self):
            calls['C.__call__'] += 1; return 1
        def __len__(self):
            calls['C.__len__'] += 1; return 1
        def __bool__(self):
            calls['C.__bool__'] += 1; return True
        def __getattr__(self, name):
            calls['C.__getattr__'] += 1; raise AttributeError(name)
    return C
C = mk()
obj = C()
ns = {'obj': obj, 'C': C, 'lst': [obj], 'dct': {'a': obj}}
codes = ['obj.', 'obj.prop.', 'obj.d.', 'obj.dd.', 'obj[0].', 'obj().', 'C.', 'C.mprop.', 'obj.bprop.', 'lst[0].', 'dct["a"].', 'obj.plain["k"][0].', 'for x in obj:\n    x.', 'obj.n.', 'len(obj).', 'obj.plain', 'obj.prop', 'obj.nonexist.']
for safe in (True, False):
    settings.allow_unsafe_interpreter_executions = not safe
    for code in codes:
        calls.clear()
        i = jedi.Interpreter(code, [ns])
        res = {}
        for m in ('complete', 'infer', 'goto', 'help', 'get_signatures'):
            try:
                r = getattr(i, m)()
                for x in r[:50]:
                    x.type; x.docstring(); x.description
                res[m] = len(r)
            except Exception as e:
                res[m] = 'EXC ' + type(e).__name__ + str(e)[:60]
        print('SAFE' if safe else 'UNSAFE', repr(code), dict(calls), {k:v for k,v in res.items() if isinstance(v,str)})
    # dir completeness
    i = jedi.Interpreter('obj.', [ns]); names = {c.name for c in i.complete()}
    calls.clear()
    print('missing from dir(obj):', sorted(set(dir(obj)) - names)[:10], 'extra', sorted(names - set(dir(obj)))[:10])
    i = jedi.Interpreter('C.', [ns]); names = {c.name for c in i.complete()}
    print('missing from dir(C):', sorted(set(dir(C)) - names)[:10])
settings.allow_unsafe_interpreter_executions = True
