import boot, jedi, os, shutil, subprocess, tokenize, io, keyword, collections, sys
jedi.settings.cache_directory = '/tmp/scratch/jcache3'
ROOT='/tmp/scratch/c05/proj'
def run(d):
    r = subprocess.run(['/venv/bin/python', 'main.py'], cwd=d, capture_output=True, text=True, env={'PYTHONDONTWRITEBYTECODE':'1'})
    return r.returncode, r.stdout, r.stderr[-300:]
base = run(ROOT)
files = ['main.py', 'pkg/helper.py', 'pkg/__init__.py']
proj = jedi.Project(ROOT)
stat = collections.Counter()
for f in files:
    path = os.path.join(ROOT, f)
    src = open(path).read()
    toks = [(t.start, t.string) for t in tokenize.generate_tokens(io.StringIO(src).readline) if t.type==tokenize.NAME and not keyword.iskeyword(t.string)]
    for (l,c), name in toks:
        if name.startswith('__') or name in ('print','range','super','self','None'): continue
        s = jedi.Script(src, path=path, project=proj)
        try:
            refs = s.get_references(l, c)
            rf = s.rename(l, c, new_name='zz_renamed')
        except Exception as e:
            stat['EXC']+=1; print('EXC', f, l, c, name, type(e).__name__, e); continue
        refset = sorted((str(r.module_path), r.line, r.column) for r in refs)
        # partition check
        part_bad = False
        for r in refs:
            if r.module_path is None or r.type=='module' and r.line is None: continue
            p2 = str(r.module_path)
            if not p2.startswith(ROOT): continue
            s2 = jedi.Script(open(p2).read(), path=p2, project=proj)
            try:
                refs2 = sorted((str(x.module_path), x.line, x.column) for x in s2.get_references(r.line, r.column))
            except Exception as e:
                refs2 = 'EXC'
            if refs2 != refset: part_bad = True
        # apply in copy
        d = '/tmp/scratch/c05/work'
        shutil.rmtree(d, ignore_errors=True); shutil.copytree(ROOT, d)
        changed = rf.get_changed_files()
        for p, cf in changed.items():
            rel = os.path.relpath(str(p), ROOT)
            open(os.path.join(d, rel), 'w', newline='').write(cf.get_new_code())
        for a, b in rf.get_renames():
            os.rename(os.path.join(d, os.path.relpath(str(a), ROOT)), os.path.join(d, os.path.relpath(str(b), ROOT)))
        after = run(d)
        ok = after == base
        stat['OK' if ok else 'BEHAV']+=1
        if part_bad: stat['PARTITION']+=1
        if not ok or part_bad:
            print('BEHAV' if not ok else '', 'PART' if part_bad else '', f, l, c, name, len(refs), after[2][-150:].replace('\n',' | '))
print(stat)
