import boot, jedi, json, sys, parso
def ser(x): return [x.name, x.type, str(x.module_path), x.line, x.column, x.full_name, x.description]
def answers(text, path, positions):
    s = jedi.Script(text, path=path)
    out = []
    for (l, c) in positions:
        for m in ('infer', 'goto', 'complete', 'get_signatures', 'get_references'):
            try:
                r = [ser(x) for x in getattr(s, m)(l, c)]
                if m in ('goto',): r = sorted(r, key=repr)
                if m == 'complete': r = r[:40]
            except Exception as e: r = 'EXC ' + type(e).__name__
            out.append([l, c, m, r])
    names = [ser(x) for x in s.get_names(all_scopes=True, references=True)]
    out.append(['names', names])
    return out, s
if __name__ == '__main__':
    jedi.settings.cache_directory = sys.argv[1]
    req = json.load(sys.stdin)
    print(json.dumps([answers(t, p, pos)[0] for t, p, pos in req]))
