import functools
class Alpha:
    tag = "a"
    def __init__(self, val, other=None):
        self.val = val
        self.other = other
    def __call__(self, x):
        return (self, x)
    def __getitem__(self, idx):
        return self.val
    def __iter__(self):
        yield self.val
        yield self.other
    def __enter__(self):
        return self.val
    def __exit__(self, *a):
        return False
    def meth(self, p, *rest, key=0.5, **more):
        return [p, rest, key, more]
    @staticmethod
    def smeth(q):
        return {q: q}
    @classmethod
    def cmeth(cls, r):
        return cls(r)
    @property
    def prop(self):
        return self.other
class Beta(Alpha):
    tag2 = 1
    def meth2(self):
        return super().meth(1)
class Mix:
    def mixm(self):
        return 1.5
class Gamma(Beta, Mix):
    pass
def wrapping(fn):
    @functools.wraps(fn)
    def inner(*args, **kwargs):
        return fn(*args, **kwargs)
    return inner
def plain_deco(fn):
    def inner2(*args, **kwargs):
        return fn(*args, **kwargs)
    return inner2
@wrapping
def made(a, b="s"):
    return Alpha(a, b)
@plain_deco
def made2(a):
    return Beta(a)
def outer_fn(cap):
    def closure():
        return cap
    return closure
def genf(n):
    for i in range(n):
        yield Alpha(i)
def annotated(x: Alpha, y: "Beta" = None) -> Gamma:
    return Gamma(x)
def documented(z):
    """
    :type z: Beta
    :rtype: Mix
    """
    return Mix()
v01 = Alpha(1, "o")
v01
v02 = v01(2.0)
v02
v03, v04 = v02
v03
v04
v05 = v01[0]
v05
v06 = [e for e in v01]
v06
v07 = v06[0]
v07
with v01 as v08:
    v08
v09 = v01.meth("p", 1, 2, key=3)
v09
v10 = v09[0]
v10
v11 = v09[1]
v11
v12 = v09[3]
v12
v13 = Alpha.smeth(1)
v13
v14 = Beta.cmeth(2)
v14
v15 = v14.val
v15
v16 = v01.prop
v16
v17 = Gamma(3)
v17
v18 = v17.mixm()
v18
v19 = v17.meth2()
v19
v20 = v17.tag
v20
v21 = made(4)
v21
v22 = v21.other
v22
v23 = made2(5)
v23
v24 = outer_fn(v17)()
v24
v25 = list(genf(2))
v25
v26 = v25[0]
v26
for v27 in genf(1):
    v27
v28 = next(genf(1))
v28
v29 = annotated(v01)
v29
v30 = documented(v14)
v30
v31 = {k: Alpha(k) for k in ("x", "y")}
v31
v32 = v31["x"]
v32
v33 = (lambda t, u=v01: u)(1)
v33
first, *middle, last = [v01, v14, v17, 1]
first
middle
last
v34 = v01 if v15 else v14
v34
if isinstance(v34, Beta):
    v35 = v34
    v35
try:
    raise KeyError("k")
except KeyError as v36:
    v36
v37 = v01.meth(*[1, 2], **{"key": 1})
v37
v38 = (v01, v14)[1]
v38
v39 = {"a": v01, "b": 2}["a"]
v39
v40 = [v01, v14][0]
v40
v41 = v17.cmeth(1)
v41
v42 = functools.partial(Alpha, 1)()
v42
