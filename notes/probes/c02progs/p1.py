class A:
    k = 1
    def __init__(self, v):
        self.v = v
        self.w = [v, v]
    def get(self):
        return self.v
    @property
    def prop(self):
        return self.w
    @staticmethod
    def sm(x):
        return x
    @classmethod
    def cm(cls):
        return cls(2.0)
class B(A):
    def get(self):
        r = super().get()
        return (r, "s")
def deco(f):
    def inner(*args, **kwargs):
        return f(*args, **kwargs)
    return inner
@deco
def mk(x, y=3):
    return A(x)
a = A(1)
b = B("x")
t = b.get()
u, v = t
c = mk(1.5)
d = c.get()
e = a.prop
f = e[0]
g = A.sm({})
h = A.cm()
i = h.v
def gen():
    yield a
    yield b
for z in gen():
    z2 = z
lst = [q.v for q in [a, b]]
m = lst[0]
fn = lambda p: p.w
n = fn(a)
dct = {"k": a, "j": 1}
o = dct["k"]
with open(__file__) as fh:
    fh2 = fh
try:
    raise ValueError("x")
except ValueError as ex:
    ex2 = ex
def clos():
    loc = b
    def inn():
        return loc
    return inn
p = clos()()
if isinstance(p, B):
    pp = p
k2 = a.k
