import boot, jedi, glob, tokenize, io, keyword, collections, random
jedi.settings.cache_directory = '/tmp/scratch/jcache3'
rnd = random.Random(3)
bad = collections.Counter(); ex = collections.defaultdict(list); n=0; nonempty=0
files = sorted(glob.glob('/repo/test/completion/*.py'))
rnd.shuffle(files)
for f in files[:25]:
    src = open(f).read()
    try: toks = list(tokenize.generate_tokens(io.StringIO(src).readline))
    except Exception: continue
    s = jedi.Script(src, path=f)
    cands = []
    for i,t in enumerate(toks):
        if t.type == tokenize.NAME:
            for k in {1, len(t.string)//2, len(t.string)}:
                if k>=1: cands.append((t.start[0], t.start[1]+k, t.string[:k]))
        elif t.type == tokenize.OP and t.string in ('.', '(', ','):
            cands.append((t.end[0], t.end[1], ''))
    rnd.shuffle(cands)
    for (l,c,frag) in cands[:40]:
        for fuzzy in (False, True):
            n+=1
            try: comps = s.complete(l, c, fuzzy=fuzzy)
            except Exception as e:
                bad['EXC '+type(e).__name__]+=1; continue
            if comps: nonempty+=1
            keyf = lambda x: (not x.name.startswith(frag), x.name.startswith('__'), x.name.startswith('_'), x.name.lower())
            names = [x.name for x in comps]
            for x in comps:
                if not fuzzy:
                    if not x.name.lower().startswith(frag.lower()):
                        bad['PREFIX']+=1; ex['PREFIX'].append((f.split('/')[-1],l,c,frag,x.name))
                    if x.complete != x.name_with_symbols[len(frag):]:
                        bad['SUFFIX']+=1; ex['SUFFIX'].append((f.split('/')[-1],l,c,frag,x.name,x.complete,x.name_with_symbols))
                else:
                    it = iter(x.name.lower())
                    if not all(ch in it for ch in frag.lower()): bad['FUZZY']+=1; ex['FUZZY'].append((f.split('/')[-1],l,c,frag,x.name))
                    if x.complete is not None: bad['FUZZYCOMPLETE']+=1
                if x.get_completion_prefix_length() != len(frag): bad['PLEN']+=1; ex['PLEN'].append((f.split('/')[-1],l,c,frag,x.name,x.get_completion_prefix_length()))
            pairs = [(x.name, x.complete) for x in comps]
            if len(pairs) != len(set(pairs)): bad['DUP']+=1; ex['DUP'].append((f.split('/')[-1],l,c,frag,[p for p,cn in collections.Counter(pairs).items() if cn>1]))
            ks = [keyf(x) for x in comps]
            if ks != sorted(ks): bad['ORDER']+=1; ex['ORDER'].append((f.split('/')[-1],l,c,frag,names[:8]))
print(n, nonempty, bad)
for k,v in ex.items():
    for e in v[:8]: print(k, e)
