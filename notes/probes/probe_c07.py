import boot, jedi, os, shutil, tempfile, re
from jedi.api.exceptions import RefactoringError
d = tempfile.mkdtemp(dir='/tmp/scratch'); jedi.settings.cache_directory = os.path.join(d, 'cache')
def apply_udiff(old, diff):
    lines = old.splitlines(True)
    out = []; i = 0
    dl = diff.splitlines(True)
    j = 0
    while j < len(dl) and not dl[j].startswith('@@'): j += 1
    while j < len(dl):
        m = re.match(r'@@ -(\d+)(?:,(\d+))? \+(\d+)(?:,(\d+))? @@', dl[j]); assert m, dl[j]
        start = int(m.group(1)); cnt = int(m.group(2) or 1)
        if cnt == 0: start += 1
        out += lines[i:start-1]; i = start-1; j += 1
        while j < len(dl) and not dl[j].startswith('@@'):
            l = dl[j]
            if l.startswith(' '): assert lines[i] == l[1:], (lines[i], l); out.append(lines[i]); i += 1
            elif l.startswith('-'): assert lines[i] == l[1:], (lines[i], l); i += 1
            elif l.startswith('+'): out.append(l[1:])
            j += 1
    out += lines[i:]
    return ''.join(out)
base = "# header comment\r\nimport os\r\n\r\ndef alpha(value):  # trailing\r\n\tresult = value + 1\r\n\treturn result\r\n\r\nprint(alpha(2))"
variants = {'crlf_nofinal': base, 'crlf_final': base + '\r\n', 'lf': base.replace('\r\n', '\n') + '\n', 'lf_nofinal': base.replace('\r\n', '\n'), 'cr': base.replace('\r\n', '\r') + '\r', 'mixed': base.replace('\r\n', '\n', 2)}
for vn, src in variants.items():
    p = os.path.join(d, vn + '.py'); open(p, 'w', newline='').write(src)
    for what, call in (('rename', lambda s: s.rename(4, 5, new_name='beta')), ('rename_var', lambda s: s.rename(5, 2, new_name='res2')),
                       ('extract_variable', lambda s: s.extract_variable(5, 10, new_name='ev', until_line=5, until_column=19)),
                       ('extract_function', lambda s: s.extract_function(5, 10, new_name='ef', until_line=5, until_column=19)),
                       ('inline', lambda s: s.inline(5, 2))):
        s = jedi.Script(src, path=p, project=jedi.Project(d))
        try: r = call(s)
        except RefactoringError as e: print(vn, what, 'refused', e); continue
        except Exception as e: print(vn, what, 'EXC', type(e).__name__, e); continue
        cf = r.get_changed_files(); new = list(cf.values())[0].get_new_code(); diff = r.get_diff()
        # normalisation
        norm = lambda t: t if (t == '' or t.endswith('\n') ) else t + '\n'
        try:
            applied = apply_udiff(norm(src), diff); ok = applied == norm(new)
        except AssertionError as e: ok = 'APPLYFAIL %r' % (e.args,)
        disk_before = open(p, newline='').read()
        r.apply(); disk_after = open(p, newline='').read()
        open(p, 'w', newline='').write(src)
        le_ok = all(l.endswith('\r\n') for l in new.splitlines(True)[:-1]) if vn.startswith('crlf') else None
        print(vn, what, 'diff-applies', ok, 'untouched-before-apply', disk_before == src, 'apply==new', disk_after == new, 'crlf-kept', le_ok, repr(new[-30:]) if vn.endswith('nofinal') else '')
shutil.rmtree(d)
