import boot, jedi, time, sys
jedi.settings.cache_directory = '/tmp/scratch/jcache3'
import jedi.inference.syntax_tree as st
cnt = [0]
orig = st._infer_node
def counted(context, element):
    cnt[0] += 1
    return orig(context, element)
st._infer_node = counted
def fam_chain(n): return "x0 = 1\n" + "".join("x%d = x%d\n" % (i, i-1) for i in range(1, n+1)) + "x%d" % n
def fam_calls(n): return "def f0(): return 1\n" + "".join("def f%d(): return f%d()\n" % (i, i-1) for i in range(1, n+1)) + "r = f%d()\nr" % n
def fam_bintree(n): return "def f0(a): return a\n" + "".join("def f%d(a): return f%d(a) or f%d(a)\n" % (i, i-1, i-1) for i in range(1, n+1)) + "r = f%d(1)\nr" % n
def fam_diamond(n):
    s = "class A0: x = 1\n"
    for i in range(1, n+1): s += "class L%d(A%d): pass\nclass R%d(A%d): pass\nclass A%d(L%d, R%d): pass\n" % (i, i-1, i, i-1, i, i, i)
    return s + "v = A%d().x\nv" % n
def fam_tuple(n): return "t0 = (1, 'a')\n" + "".join("t%d = (t%d[0], t%d[1])\n" % (i, i-1, i-1) for i in range(1, n+1)) + "y = t%d[0]\ny" % n
def fam_ifelse(n): return "x0 = 1\n" + "".join("if unknown%d:\n    x%d = x%d\nelse:\n    x%d = x%d\n" % (i, i, i-1, i, i-1) for i in range(1, n+1)) + "x%d" % n
for fam in (fam_chain, fam_calls, fam_bintree, fam_diamond, fam_tuple, fam_ifelse):
    row = []
    for n in (1, 2, 4, 8, 16, 32, 64):
        src = fam(n)
        cnt[0] = 0; t = time.time()
        try:
            s = jedi.Script(src); r = s.infer()
            res = ','.join(sorted(d.name for d in r))
        except Exception as e:
            res = 'EXC ' + type(e).__name__
        row.append((n, cnt[0], round(time.time()-t, 2), res))
    print(fam.__name__, row)
cyc = ["a = b\nb = a\na", "def f(): return f()\nf()", "class A(A): pass\nA().x", "class A(B): pass\nclass B(A): pass\nA().x",
       "x = [x]\nx[0]", "def d(f): return d(f)\n@d\ndef g(): pass\ng", "class P:\n    @property\n    def p(self): return self.p\nP().p",
       "def g():\n    yield from g()\nfor i in g(): i", "class G:\n    def __getattr__(self, n): return getattr(self, n)\nG().foo", "x = x + 1\nx", "def f(a): return f(f(a))\nf(1)"]
for c in cyc:
    cnt[0]=0; t=time.time()
    out = {}
    for m in ('infer','goto','complete','get_references','help'):
        try: out[m] = len(getattr(jedi.Script(c), m)())
        except Exception as e: out[m] = 'EXC '+type(e).__name__
    print(repr(c), cnt[0], round(time.time()-t,2), out)
