import boot, jedi, ast, traceback, collections, subprocess, sys, os, tempfile
from jedi.api.exceptions import RefactoringError
jedi.settings.cache_directory = '/tmp/scratch/jcache3'
src = '''import math
GLOBAL = 3
def helper(v, w=2):
    return v * w + GLOBAL
class Box:
    scale = 2
    def __init__(self, n):
        self.n = n
    def grow(self, by):
        tmp = self.n + by
        out = [tmp * i for i in range(3) if i != by]
        if tmp > 2 and not out:
            return tmp
        res = helper(tmp, w=by) + len(out)
        return res, out
    @classmethod
    def make(cls, k):
        return cls(k + 1)
def main():
    b = Box.make(2)
    first, second = b.grow(1)
    label = "%s-%s" % (first, math.floor(2.5))
    print(label, second, (lambda q: q + first)(1))
main()
'''
def run(code):
    with tempfile.NamedTemporaryFile('w', suffix='.py', delete=False, dir='/tmp/scratch') as f: f.write(code)
    r = subprocess.run(['/venv/bin/python', f.name], capture_output=True, text=True); os.unlink(f.name)
    return r.returncode, r.stdout, r.stderr.strip().split('\n')[-1] if r.returncode else ''
base = run(src)
print('base', base)
tree = ast.parse(src)
stat = collections.Counter(); ex = collections.defaultdict(list)
exprs = [n for n in ast.walk(tree) if isinstance(n, ast.expr) and not isinstance(getattr(n, 'ctx', None), (ast.Store, ast.Del))]
for n in exprs:
    for kind in ('extract_variable', 'extract_function'):
        for mode in ('cursor', 'range'):
            s = jedi.Script(src)
            kw = {} if mode == 'cursor' else dict(until_line=n.end_lineno, until_column=n.end_col_offset)
            seg = ast.get_source_segment(src, n)
            try:
                r = getattr(s, kind)(n.lineno, n.col_offset, new_name='extracted_x', **kw)
                code = r.get_changed_files()[None].get_new_code()
            except RefactoringError as e:
                stat[(kind, mode, 'refused')] += 1; continue
            except Exception as e:
                tb = traceback.extract_tb(e.__traceback__)[-1]
                stat[(kind, mode, 'EXC')] += 1; ex[(kind, mode, 'EXC')].append((seg, type(e).__name__, tb.name, tb.lineno)); continue
            try: compile(code, 'x', 'exec')
            except SyntaxError as e:
                stat[(kind, mode, 'NOCOMPILE')] += 1; ex[(kind, mode, 'NOCOMPILE')].append((seg, n.lineno, n.col_offset)); continue
            after = run(code)
            if after == base: stat[(kind, mode, 'same')] += 1
            else:
                stat[(kind, mode, 'BEHAV')] += 1; ex[(kind, mode, 'BEHAV')].append((seg, n.lineno, n.col_offset, after[2]))
for k in sorted(stat): print(k, stat[k])
for k, v in ex.items():
    print(k)
    for e in v[:12]: print('    ', e)
