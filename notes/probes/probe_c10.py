import boot, jedi, os, sys, shutil, tempfile, subprocess, json
d = tempfile.mkdtemp(dir='/tmp/scratch'); jedi.settings.cache_directory = os.path.join(d, 'cache')
r1 = os.path.join(d, 'r1'); r2 = os.path.join(d, 'r2')
files = {
 'r1/clash.py': '', 'r1/clash/__init__.py': '',            # package beats module
 'r1/nsp/part_a.py': '', 'r2/nsp/part_b.py': '',             # namespace over two roots
 'r1/both/__init__.py': '', 'r2/both/other.py': '',         # regular pkg in r1 shadows ns portion in r2
 'r2/only2.py': '', 'r1/dup.py': '', 'r2/dup.py': '',
 'r1/pkg/__init__.py': '', 'r1/pkg/mod.py': '', 'r1/pkg/sub/__init__.py': '', 'r1/pkg/sub/deep.py': '', 'r1/pkg/sub/sib.py': '',
 'r1/nsdir/inner/leaf.py': '',
}
for f in files:
    p = os.path.join(d, f); os.makedirs(os.path.dirname(p), exist_ok=True); open(p, 'w').write('MARK = %r\n' % f)
tests = [
 ('main.py', 'import clash'), ('main.py', 'import nsp.part_a'), ('main.py', 'import nsp.part_b'), ('main.py', 'import nsp'),
 ('main.py', 'import both.other'), ('main.py', 'import both'), ('main.py', 'import only2'), ('main.py', 'import dup'),
 ('main.py', 'from pkg import mod'), ('main.py', 'from pkg.sub import deep'), ('main.py', 'import nsdir.inner.leaf'), ('main.py', 'import missing_mod'),
 ('r1/pkg/sub/deep.py', 'from . import sib'), ('r1/pkg/sub/deep.py', 'from .. import mod'), ('r1/pkg/sub/deep.py', 'from ..mod import MARK'), ('r1/pkg/sub/deep.py', 'from ... import dup'),
 ('r1/pkg/mod.py', 'from .sub import sib'), ('r1/pkg/mod.py', 'from . import missing'),
]
oracle_src = '''
import sys, json, importlib, types
sys.path[:] = %r + [p for p in sys.path if 'site-packages' in p or 'lib/python' in p]
out = []
for fname, pkgname, stmt in %r:
    g = {'__name__': (pkgname + '.x') if pkgname else '__main__', '__package__': pkgname}
    for k in [k for k in sys.modules if k.split('.')[0] in ('clash','nsp','both','only2','dup','pkg','nsdir','missing_mod')]: del sys.modules[k]
    try:
        exec(stmt, g)
        name = [k for k in g if not k.startswith('__')][-1]
        v = g[name]
        if isinstance(v, types.ModuleType):
            out.append([getattr(v, '__file__', None), sorted(getattr(v, '__path__', [])) if getattr(v, '__file__', None) is None else None])
        else: out.append(['VALUE', v])
    except Exception as e: out.append(['EXC', type(e).__name__])
print(json.dumps(out))
'''
for order in ([r1, r2], [r2, r1]):
    def pk(fn):
        if fn == 'main.py': return ''
        rel = os.path.relpath(os.path.dirname(os.path.join(d, fn)), r1); return rel.replace('/', '.')
    o = subprocess.run(['/venv/bin/python', '-c', oracle_src % (order, [(fn, pk(fn), st) for fn, st in tests])], capture_output=True, text=True, cwd=d)
    if o.returncode: print(o.stderr)
    orc = json.loads(o.stdout)
    P = jedi.Project(d, sys_path=order + [p for p in sys.path if 'lib/python' in p and 'site-packages' not in p], smart_sys_path=False)
    for (fn, st), want in zip(tests, orc):
        path = os.path.join(d, fn)
        s = jedi.Script(st, path=path, project=P)
        col = len(st)
        got = sorted(set((str(x.module_path) if x.module_path else None, x.type) for x in s.infer(1, col)))
        got2 = sorted(set((str(x.module_path) if x.module_path else None, x.type) for x in s.goto(1, col, follow_imports=True)))
        w = want[0] if want[0] not in ('EXC', 'VALUE') else want
        ok = (want[0] == 'EXC' and not got) or (want[0] not in ('EXC','VALUE') and want[0] is not None and [g[0] for g in got] == [want[0]]) or (want[0] is None and got and got[0][1] in ('namespace','module') ) or want[0]=='VALUE'
        print('OK ' if ok else 'DIFF', [os.path.basename(x) for x in order], fn, repr(st), 'want', str(w).replace(d, ''), 'infer', str(got).replace(d, ''), 'goto', str(got2).replace(d, '') if got2 != got else '=')
shutil.rmtree(d)
