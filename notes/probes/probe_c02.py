import boot, jedi, ast, sys, types, collections
jedi.settings.cache_directory = '/tmp/scratch/jcache2'
def probe_positions(src):
    tree = ast.parse(src)
    out = []
    for node in ast.walk(tree):
        if isinstance(node, ast.Name) and isinstance(node.ctx, ast.Load):
            out.append((node, (node.lineno, node.col_offset)))
        elif isinstance(node, ast.Attribute) and isinstance(node.ctx, ast.Load):
            out.append((node, (node.end_lineno, node.end_col_offset - len(node.attr))))
        elif isinstance(node, (ast.Call, ast.Subscript)) and isinstance(getattr(node,'ctx',ast.Load()), ast.Load):
            out.append((node, (node.end_lineno, node.end_col_offset)))
    return tree, out
class T(ast.NodeTransformer):
    def __init__(self, ids): self.ids = ids
    def generic_visit(self, node):
        node = super().generic_visit(node)
        if id(node) in self.ids:
            return ast.copy_location(ast.Call(ast.Name('__probe__', ast.Load()), [ast.Constant(self.ids[id(node)]), node], []), node)
        return node
    def visit_JoinedStr(self, node): return node
def run(src):
    tree, probes = probe_positions(src)
    # don't wrap decorators' names? keep simple
    ids = {id(n): i for i, (n, p) in enumerate(probes)}
    new = T(ids).visit(tree); ast.fix_missing_locations(new)
    seen = collections.defaultdict(set)
    def __probe__(i, v):
        t = type(v)
        if isinstance(v, type): d = ('class', v.__name__, getattr(v,'__module__',None))
        elif isinstance(v, types.ModuleType): d=('module', v.__name__, None)
        elif isinstance(v, (types.FunctionType, types.BuiltinFunctionType, types.MethodType)): d=('function', getattr(v,'__name__','?'), None)
        else: d = ('instance', t.__name__, t.__module__)
        seen[i].add(d); return v
    g = {'__probe__': __probe__, '__name__': '__main__', '__file__': '/tmp/scratch/probe_c02.py'}
    exec(compile(new, 'prog', 'exec'), g)
    s = jedi.Script(src)
    bad = 0
    for i, (n, pos) in enumerate(probes):
        if i not in seen: continue
        defs = s.infer(*pos)
        got = {(d.type, d.name) for d in defs}
        want = {(k, nm) for k, nm, m in seen[i]}
        ok = want <= got
        exact = want == got
        flag = 'OK ' if exact else ('SUP' if ok else 'MISS')
        if flag != 'OK ':
            bad += 1
            print(flag, pos, src.splitlines()[pos[0]-1].strip()[:50], 'want', want, 'got', got)
    print('probes', len(seen), 'nonexact', bad)
import glob
for f in sorted(glob.glob('/tmp/scratch/c02progs/*.py')):
    print('#####', f)
    run(open(f).read())
