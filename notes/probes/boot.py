import sys, os
sys.path.insert(0, '/repo')
from pathlib import Path
import jedi
import jedi.inference.gradual.typeshed as _ts
_ts.TYPESHED_PATH = Path('/tmp/scratch/ts')
import jedi.inference.gradual.utils as _tu
_tu.TYPESHED_PATH = _ts.TYPESHED_PATH
