import boot, jedi, inspect, itertools, collections
jedi.settings.cache_directory = '/tmp/scratch/jcache3'
# signature mirror + index oracle
def bind_index(sig, pos_args, kw_partial):
    """Which parameter would Python bind the argument being typed to?"""
    pass
defs = [
 "def f(a, b=2, *args, c, d=4, **kw): pass",
 "def f(a, /, b, *, c): pass",
 "def f(*, c, d): pass",
 "def f(a, b): pass",
 "def f(a: int, b: str = 'x') -> None: pass",
 "def f(**kw): pass",
 "def f(*args): pass",
]
calls = ["f(", "f(1, ", "f(1, 2, ", "f(1, 2, 3, ", "f(c=", "f(c=1, ", "f(1, c=1, ", "f(b", "f(1, d", "f(*x, ", "f(**x, ", "f(1, 2, 3, 4, "]
for d in defs:
    ns = {}; exec(d, ns); sig = inspect.signature(ns['f'])
    src0 = d + "\n"
    s = jedi.Script(src0 + "f(")
    sg = s.get_signatures()[0]
    mirror = [(p.name, p.kind.name) for p in sg.params] == [(p.name, p.kind.name) for p in sig.parameters.values()]
    print(d, '| mirror', mirror, '| to_string', sg.to_string(), '| str(sig)', 'f'+str(sig))
    row = []
    for c in calls:
        s = jedi.Script(src0 + c)
        sgs = s.get_signatures()
        row.append((c, sgs[0].index if sgs else 'NOSIG'))
    print('   ', row)
