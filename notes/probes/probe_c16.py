import subprocess, json, glob, os, sys
files = sorted(glob.glob('/repo/test/completion/*.py'))[:12]
for f in files:
    outs = []
    for seed, junk in (('0', 0), ('1', 1000), ('12345', 77777)):
        env = dict(os.environ, PYTHONHASHSEED=seed)
        r = subprocess.run(['/venv/bin/python', 'worker_c16.py', f, '/tmp/scratch/jc16_%s' % seed, str(junk)], capture_output=True, text=True, env=env)
        if r.returncode: print(r.stderr[-500:]); break
        outs.append(json.loads(r.stdout))
    else:
        diffs = [(a[:3]) for a, b, c in zip(*outs) if not (a == b == c)]
        print(os.path.basename(f), len(outs[0]), 'diffs', len(diffs), diffs[:5])
        if diffs:
            for a, b, c in zip(*outs):
                if not (a == b == c):
                    print('   A', str(a[3])[:300]); print('   B', str(b[3])[:300]); print('   C', str(c[3])[:300]); break
