import boot, jedi, os, shutil, tempfile, itertools
from pathlib import Path
d = tempfile.mkdtemp(dir='/tmp/scratch'); jedi.settings.cache_directory = os.path.join(d, 'cache')
proj = os.path.join(d, 'proj')
for sub in ('a/b/c', 'a/pk/in', 'x'): os.makedirs(os.path.join(proj, sub))
open(os.path.join(proj, 'a/pk/__init__.py'), 'w').close()
env = jedi.get_default_environment(); base = [p for p in env.get_sys_path() if p != '']
def model(project_path, sys_path, added, smart, script_path):
    pre = [str(project_path)] if smart else []
    b = list(map(str, sys_path)) if sys_path is not None else list(base)
    suf = list(map(str, added))
    if smart and script_path is not None:
        trav = []
        for par in Path(script_path).parents:
            if par == Path(project_path) or Path(project_path) not in par.parents: break
            if (par / '__init__.py').is_file(): continue
            trav.append(str(par))
        suf += list(reversed(trav))
    out = []
    for p in pre + b + suf:
        if p not in out: out.append(p)
    return out
bad = 0; n = 0
for sys_path, added, smart, script in itertools.product(
        [None, [], [proj, '/zzz', proj], [os.path.join(proj, 'a'), os.path.join(proj, 'a/b')]],
        [(), [os.path.join(proj, 'x')], [proj, os.path.join(proj, 'x'), os.path.join(proj, 'x')]],
        [True, False],
        [None, 'main.py', 'a/m.py', 'a/b/c/m.py', 'a/pk/in/m.py', '../outside.py']):
    P = jedi.Project(proj, sys_path=sys_path, added_sys_path=added, smart_sys_path=smart)
    sp = None if script is None else os.path.normpath(os.path.join(proj, script))
    s = jedi.Script('x', path=sp, project=P)
    got = s._inference_state.get_sys_path()
    want = model(proj, sys_path, added, smart, sp)
    n += 1
    if got != want:
        bad += 1
        if bad < 6: print('DIFF', sys_path and [x.replace(d, '') for x in sys_path], added, smart, script, '\n   got ', [x.replace(d, '') for x in got[:3]], [x.replace(d,'') for x in got[-4:]], '\n   want', [x.replace(d, '') for x in want[:3]], [x.replace(d,'') for x in want[-4:]])
print(n, 'cases', bad, 'diffs')
shutil.rmtree(d)
