import boot, jedi, traceback, collections, sys, os, random, glob, time, json
from multiprocessing import Pool
jedi.settings.cache_directory = '/tmp/scratch/jcache'
METHODS = ['complete','infer','goto','help','get_references','get_signatures','get_context']
def touch(obj):
    # exercise documented attributes
    for a in ('name','type','module_name','module_path','line','column','description','full_name'):
        getattr(obj, a)
    obj.docstring(); obj.docstring(raw=True); obj.get_line_code(); obj.is_stub(); obj.in_builtin_module()
    obj.get_definition_start_position(); obj.get_definition_end_position(); obj.is_side_effect()
    if hasattr(obj, 'complete'):
        obj.complete; obj.name_with_symbols; obj.get_completion_prefix_length()
    if hasattr(obj, 'params'):
        for p in obj.params: p.name; p.kind; p.to_string()
        obj.to_string()
    if hasattr(obj, 'index'): obj.index; obj.bracket_start
    obj.parent(); obj.get_signatures(); obj.get_type_hint(); 
    if isinstance(obj, jedi.api.classes.Name): obj.is_definition(); obj.defined_names()
    obj.goto(); obj.infer()
def bucket(e):
    tb = traceback.extract_tb(e.__traceback__)
    fr = [f for f in tb if '/jedi/' in f.filename or '/parso/' in f.filename]
    f = fr[-1] if fr else tb[-1]
    return '%s@%s:%s:%d' % (type(e).__name__, f.filename.split('site-packages/')[-1].replace('/repo/',''), f.name, f.lineno)
def run(args):
    src, seed = args
    rnd = random.Random(seed)
    out = []
    lines = src.split('\n')
    try:
        s = jedi.Script(src)
    except Exception as e:
        return [(bucket(e), 'init', None, src)]
    for _ in range(6):
        l = rnd.randrange(len(lines)); c = rnd.randint(0, len(lines[l]))
        # lines per jedi are keepends split; approximate
        for m in METHODS:
            try:
                res = getattr(s, m)(l+1, c)
            except ValueError as e:
                continue
            except Exception as e:
                out.append((bucket(e), m, (l+1,c), src)); continue
            if not isinstance(res, list): res=[res]
            for r in res[:8]:
                try: touch(r)
                except Exception as e:
                    out.append((bucket(e), m+'.touch', (l+1,c), src))
    for m in ('get_names','get_syntax_errors'):
        try:
            if m=='get_names': rs=s.get_names(all_scopes=True, definitions=True, references=True)
            else: rs=s.get_syntax_errors()
        except Exception as e: out.append((bucket(e), m, None, src))
    return out
if __name__=='__main__':
    files = sorted(glob.glob('/repo/test/completion/*.py'))
    rnd = random.Random(1)
    cases=[]
    for f in files:
        txt=open(f).read()
        # chunks of ~40 lines, then prefixes
        ls=txt.split('\n')
        for i in range(0,len(ls),40):
            chunk='\n'.join(ls[i:i+40])
            for k in range(4):
                cut=rnd.randint(0,len(chunk))
                cases.append((chunk[:cut], rnd.randrange(1<<30)))
    rnd.shuffle(cases)
    cases=cases[:int(sys.argv[1])]
    t=time.time()
    with Pool(16) as p:
        res=p.map(run, cases, chunksize=4)
    b=collections.Counter(); ex={}
    for r in res:
        for k,m,pos,src in r:
            b[k]+=1; 
            if k not in ex or len(src)<len(ex[k][2]): ex[k]=(m,pos,src)
    print(len(cases), time.time()-t)
    for k,v in b.most_common(): print(v,k,ex[k][0],ex[k][1],len(ex[k][2]))
    json.dump({k:ex[k] for k in ex}, open('/tmp/scratch/total_ex.json','w'))
