import boot, jedi, glob, ast, collections, tokenize, io, keyword
jedi.settings.cache_directory = '/tmp/scratch/jcache3'
def scopes(tree):
    # list of (start,end,bodystart,name,kind) for func/class
    out = []
    for n in ast.walk(tree):
        if isinstance(n, (ast.FunctionDef, ast.AsyncFunctionDef, ast.ClassDef)):
            b = n.body[0]
            bstart = (b.lineno, b.col_offset)
            if getattr(b, 'decorator_list', None):
                d = b.decorator_list[0]; bstart = (d.lineno, d.col_offset-1)
            out.append(((n.lineno, n.col_offset), (n.end_lineno, n.end_col_offset), bstart, n.name, 'class' if isinstance(n, ast.ClassDef) else 'function'))
    return out
def expected(sc, pos):
    best = None
    for st, en, bs, name, kind in sc:
        if bs <= pos < en or (bs <= pos and pos == en):
            if best is None or st > best[0]: best = (st, name, kind)
    return best
bad = collections.Counter(); ex = collections.defaultdict(list); n=0
files = sorted(glob.glob('/repo/jedi/api/*.py'))[:6] + sorted(glob.glob('/repo/test/completion/*.py'))[:10]
for f in files:
    src = open(f).read()
    try: tree = ast.parse(src)
    except SyntaxError: continue
    sc = scopes(tree)
    s = jedi.Script(src, path=f)
    lines = src.split('\n')
    for t in tokenize.generate_tokens(io.StringIO(src).readline):
        if t.type != tokenize.NAME or keyword.iskeyword(t.string): continue
        pos = (t.start[0], t.start[1])
        n+=1
        try: c = s.get_context(*pos)
        except Exception as e:
            bad['EXC '+type(e).__name__]+=1; ex['EXC'].append((f,pos,lines[pos[0]-1][:60])); continue
        e = expected(sc, pos)
        got = (c.name, c.type)
        want = (e[1], e[2]) if e else (None, 'module')
        if want[1]=='module':
            ok = c.type=='module'
        else: ok = got==want
        if not ok:
            bad['DIFF']+=1; ex['DIFF'].append((f.split('/')[-1],pos,lines[pos[0]-1].strip()[:50], 'want',want,'got',got))
print(n, bad)
for k,v in ex.items():
    for e in v[:25]: print(k, e)
