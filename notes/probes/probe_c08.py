import c08_lib, boot, jedi, random, glob, subprocess, json, parso, os, tempfile, shutil
d = tempfile.mkdtemp(dir='/tmp/scratch'); jedi.settings.cache_directory = os.path.join(d, 'c1')
rnd = random.Random(5)
files = sorted(glob.glob('/repo/test/completion/*.py'))
tot = 0; diffs = 0; parso_mis = 0
for hist in range(12):
    f = rnd.choice(files); lines = open(f).read().split('\n')
    a = rnd.randrange(max(1, len(lines) - 50)); lines = lines[a:a+50]
    path = os.path.join(d, 'buf%d.py' % (hist % 2))
    reqs = []; local = []
    for step in range(10):
        op = rnd.choice(['del', 'dup', 'indent', 'dedent', 'swap', 'paste', 'chars'])
        i = rnd.randrange(len(lines))
        if op == 'del' and len(lines) > 5: del lines[i:i+rnd.randint(1, 4)]
        elif op == 'dup': lines[i:i] = lines[i:i+3]
        elif op == 'indent': lines[i:i+4] = ['    ' + l for l in lines[i:i+4]]
        elif op == 'dedent': lines[i:i+4] = [l[4:] if l.startswith('    ') else l for l in lines[i:i+4]]
        elif op == 'swap' and i + 1 < len(lines): lines[i], lines[i+1] = lines[i+1], lines[i]
        elif op == 'paste': j = rnd.randrange(len(lines)); lines[i:i] = lines[j:j+5]
        elif op == 'chars' and lines[i]: k = rnd.randrange(len(lines[i])); lines[i] = lines[i][:k] + rnd.choice(['x', '.', '(', ' ', '']) + lines[i][k+1:]
        text = '\n'.join(lines)
        ls = text.split('\n')
        pos = []
        for _ in range(4):
            l = rnd.randrange(len(ls)); pos.append((l + 1, rnd.randint(0, len(ls[l]))))
        ans, s = c08_lib.answers(text, path, pos)
        fresh_tree = parso.parse(text)
        same_tree = s._module_node.get_code() == text and repr_tree(s._module_node) == repr_tree(fresh_tree) if False else s._module_node.get_code() == text
        local.append((ans, same_tree)); reqs.append((text, path, pos))
    r = subprocess.run(['/venv/bin/python', 'c08_lib.py', os.path.join(d, 'c2_%d' % hist)], input=json.dumps(reqs), capture_output=True, text=True)
    if r.returncode: print(r.stderr[-400:]); continue
    ref = json.loads(r.stdout)
    for (ans, same), refans, (text, _, _) in zip(local, ref, reqs):
        for a, b in zip(json.loads(json.dumps(ans)), refans):
            tot += 1
            if a != b:
                diffs += 1
                if diffs <= 5: print('DIFF hist', hist, a[:3], '\n  local', str(a[-1])[:200], '\n  fresh', str(b[-1])[:200])
print('compared', tot, 'diffs', diffs)
shutil.rmtree(d)
