import boot, jedi, ast
jedi.settings.cache_directory = '/tmp/scratch/jcache3'
cases = {
'global_decl': '''
x = "m"
def f():
    global x
    x = "g"
    return x
f()
''',
'nonlocal': '''
def outer():
    x = "o"
    def inner():
        nonlocal x
        x = "n"
        return x
    inner()
    return x
outer()
''',
'closure_late_bind': '''
def outer():
    def inner():
        return x
    x = "late"
    return inner()
outer()
''',
'module_late_bind': '''
def f():
    return x
x = "late"
f()
''',
'loop_carried': '''
x = "m"
def f():
    for i in range(2):
        if i:
            r = x
        x = "l"
    return r
f()
''',
'class_in_func': '''
def f():
    x = "f"
    class C:
        x = "c"
        def m(self):
            return x
    return C().m()
f()
''',
'comp_scope': '''
x = "m"
y = [x for x in ("a", "b")]
z = x
''',
'lambda_default': '''
x = "m"
def f():
    x = "f"
    g = lambda a=x: (a, x)
    return g()
f()
''',
'except_target': '''
e = "m"
try:
    raise ValueError("v")
except ValueError as e:
    r = e
''',
'walrus_in_comp': '''
def f():
    ys = [(w := i) for i in range(2)]
    return w
f()
''',
'param_shadow': '''
x = "m"
def f(x):
    return x
f("p")
''',
'import_binding': '''
import os as x
def f():
    return x
f()
''',
'class_body_uses_global_then_binds': '''
x = "m"
class C:
    y = x
    x = "c"
    z = x
''',
'global_in_nested': '''
x = "m"
def outer():
    x = "o"
    def inner():
        global x
        return x
    return inner()
outer()
''',
'del_then_global': '''
x = "m"
def f():
    return x
f()
''',
}
for name, src in cases.items():
    s = jedi.Script(src)
    tree = ast.parse(src)
    uses = [(n.lineno, n.col_offset, n.id) for n in ast.walk(tree) if isinstance(n, ast.Name) and isinstance(n.ctx, ast.Load) and n.id in ('x','e','w')]
    out = []
    for (l, c, nm) in sorted(uses):
        r = s.goto(l, c)
        out.append(((l, c), sorted((d.line, d.column) for d in r)))
    print(name, out)
