import boot, jedi, traceback, collections, sys, itertools
from jedi.api.exceptions import RefactoringError
srcs = [
'''def f(a, b):
    x = a + b * 2
    y = [i for i in range(x) if i % 2]
    if x > 3 and not y:
        return x, y
    return g(x)(y).z[1:2]
class C:
    def m(self):
        self.v = self.w + 1
        return lambda q: q + self.v
''',
'''import os
x = os.path.join("a", "b")
print(x, end="")
for i in (1, 2):
    z = i ** 2
    print(f"{z!r:>3}")
''',
]
buckets = collections.Counter(); examples = {}
n=0; ok=0; refused=0; compiled_fail=0
for src in srcs:
    lines = src.splitlines(True)
    poss = [(l+1, c) for l, line in enumerate(lines) for c in range(len(line.rstrip('\n'))+1)]
    for kind in ('extract_variable', 'extract_function'):
        for p in poss:
            for q in [None] + [q for q in poss if q > p][:40:3]:
                n+=1
                s = jedi.Script(src)
                kw = {} if q is None else dict(until_line=q[0], until_column=q[1])
                try:
                    r = getattr(s, kind)(p[0], p[1], new_name='nn', **kw)
                    code = r.get_changed_files()[None].get_new_code()
                    ok+=1
                    try: compile(code, 'x', 'exec')
                    except SyntaxError as e:
                        compiled_fail+=1
                        k=('SYNTAX', kind)
                        buckets[k]+=1; examples.setdefault(k, (src, p, q, code))
                except RefactoringError: refused+=1
                except Exception as e:
                    tb = traceback.extract_tb(e.__traceback__)[-1]
                    k = (type(e).__name__, tb.filename.split('/')[-1], tb.lineno, kind)
                    buckets[k]+=1; examples.setdefault(k, (src, p, q, str(e)))
print(n, ok, refused, compiled_fail)
for k,v in buckets.most_common(): print(v, k, examples[k][1:3], repr(examples[k][3])[:300])
