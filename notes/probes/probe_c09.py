import boot, jedi, os, time, shutil, tempfile
d = tempfile.mkdtemp(dir='/tmp/scratch'); jedi.settings.cache_directory = os.path.join(d, 'cache')
proj = os.path.join(d, 'p'); os.mkdir(proj)
P = jedi.Project(proj)
stale = 0; N = 300
for i in range(N):
    with open(os.path.join(proj, 'modx.py'), 'w') as f: f.write('def fun_%d(): pass\n' % i)
    s = jedi.Script('import modx\nmodx.fun_', path=os.path.join(proj, 'main.py'), project=P)
    names = [c.name for c in s.complete()]
    if names != ['fun_%d' % i]:
        stale += 1
        if stale < 4: print(i, names)
print('same-process stale', stale, 'of', N)
# module -> package
os.remove(os.path.join(proj, 'modx.py')); os.mkdir(os.path.join(proj, 'modx'))
open(os.path.join(proj, 'modx', '__init__.py'), 'w').write('def in_pkg(): pass\n')
s = jedi.Script('import modx\nmodx.', path=os.path.join(proj, 'main.py'), project=P)
print('pkg', [c.name for c in s.complete() if not c.name.startswith('__')])
shutil.rmtree(os.path.join(proj, 'modx')); open(os.path.join(proj, 'modx.py'), 'w').write('def back(): pass\n')
s = jedi.Script('import modx\nmodx.', path=os.path.join(proj, 'main.py'), project=P)
print('mod again', [c.name for c in s.complete() if not c.name.startswith('__')])
os.remove(os.path.join(proj, 'modx.py'))
s = jedi.Script('import modx\nmodx.', path=os.path.join(proj, 'main.py'), project=P)
print('deleted', [c.name for c in s.complete() if not c.name.startswith('__')])
# new module created after a failed lookup (finder directory cache!)
s = jedi.Script('import newmod\nnewmod.', path=os.path.join(proj, 'main.py'), project=P); s.complete()
open(os.path.join(proj, 'newmod.py'), 'w').write('def created(): pass\n')
s = jedi.Script('import newmod\nnewmod.', path=os.path.join(proj, 'main.py'), project=P)
print('created after miss', [c.name for c in s.complete() if not c.name.startswith('__')])
shutil.rmtree(d)
