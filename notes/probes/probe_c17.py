import boot, jedi, glob, tokenize, io, keyword, collections, sys
jedi.settings.cache_directory = '/tmp/scratch/jcache3'
def ident_tokens(src):
    out = []
    try:
        for t in tokenize.generate_tokens(io.StringIO(src).readline):
            if t.type == tokenize.NAME and not keyword.iskeyword(t.string):
                out.append((t.start[0], t.start[1], t.string))
    except Exception as e:
        return None
    return out
bad = collections.Counter(); ex = {}
files = sorted(glob.glob('/repo/jedi/**/*.py', recursive=True))[:60] + sorted(glob.glob('/repo/test/completion/*.py'))[:40]
for f in files:
    src = open(f).read()
    try: compile(src, f, 'exec')
    except SyntaxError: continue
    toks = ident_tokens(src)
    if toks is None: continue
    s = jedi.Script(src, path=f)
    names = s.get_names(all_scopes=True, definitions=True, references=True)
    got = collections.Counter((n.line, n.column, n.name) for n in names)
    want = collections.Counter(toks)
    miss = want - got; extra = got - want
    lines = src.split('\n')
    for k in miss:
        # classify
        tag = 'MISS'
        bad[tag] += 1; ex.setdefault(tag, []).append((f, k, lines[k[0]-1].strip()[:60]))
    for k in extra:
        bad['EXTRA'] += 1; ex.setdefault('EXTRA', []).append((f, k, lines[k[0]-1].strip()[:60]))
    for n in names:
        l = lines[n.line-1]
        if l[n.column:n.column+len(n.name)] != n.name:
            bad['TEXT'] += 1; ex.setdefault('TEXT', []).append((f, (n.line,n.column,n.name)))
        if n.get_line_code().rstrip('\r\n') != l.rstrip('\r'):
            bad['LINECODE'] += 1; ex.setdefault('LINECODE', []).append((f, (n.line,n.column,n.name), n.get_line_code(), l))
print(bad)
for k, v in ex.items():
    print(k); 
    for e in v[:12]: print('   ', e)
