import boot, jedi, os, shutil, tempfile
d = tempfile.mkdtemp(dir='/tmp/scratch'); jedi.settings.cache_directory = os.path.join(d, 'cache')
proj = os.path.join(d, 'p')
files = {
 'alpha.py': 'def target_fn(): pass\nclass TargetCls:\n    def target_fn(self): pass\n    inner_target = 1\ntarget_var = 1\n',
 'pkg/__init__.py': 'from alpha import target_fn\n',
 'pkg/beta.py': 'def other():\n    def target_fn(): pass\n    target_var = 2\ntarget_var: int = 3\n',
 'pkg/sub/gamma.py': 'import alpha\nasync def target_fn(): pass\n',
 'target_fn.py': 'x = 1\n',
 'venv/lib/ign.py': 'def target_fn(): pass\n',
 '.venv/ign.py': 'def target_fn(): pass\n',
 '.tox/ign.py': 'def target_fn(): pass\n',
 '__pycache__/ign.py': 'def target_fn(): pass\n',
 'build/ign.py': 'def target_fn(): pass\n',
 'pkg/gen/ign.py': 'def target_fn(): pass\n',
 'pkg/keep/gen/notign.py': 'def target_fn(): pass\n',
 '.gitignore': 'build/\n/pkg/gen\n# comment\n*.pyc\n',
 'pkg/.gitignore': 'nothing_here\n',
}
for f, c in files.items():
    p = os.path.join(proj, f); os.makedirs(os.path.dirname(p), exist_ok=True); open(p, 'w').write(c)
P = jedi.Project(proj)
for q, kw in (('target_fn', {}), ('target_fn', {'all_scopes': True}), ('target_var', {}), ('TargetCls.target_fn', {}), ('class TargetCls', {}), ('def target_fn', {}), ('inner_target', {'all_scopes': True})):
    r = list(P.search(q, **kw))
    print(q, kw, sorted((os.path.relpath(str(x.module_path), proj) if x.module_path else None, x.line, x.name, x.type) for x in r))
r = list(P.complete_search('targ'))
print('complete', sorted((os.path.relpath(str(x.module_path), proj) if x.module_path else None, x.line, x.name, x.complete) for x in r))
s = jedi.Script(files['alpha.py'])
print([ (x.line, x.name) for x in s.search('target_fn', all_scopes=True)], [(x.line,x.name) for x in s.get_names(all_scopes=True) if x.name=='target_fn'])
shutil.rmtree(d)
