#!/bin/sh
# Offline setup: hypothesis in /venv (already there on this image; wheelhouse otherwise), unpack vendored data.
cd "$(dirname "$0")" || exit 2
/venv/bin/python -c "import hypothesis" 2>/dev/null || \
  /venv/bin/pip install --no-index --find-links /opt/veriftools/wheels hypothesis || exit 2
mkdir -p .deps
PYTHONPATH=.deps /venv/bin/python -c "import atheris" 2>/dev/null || \
  /venv/bin/pip install --no-index --find-links /opt/veriftools/wheels --target .deps atheris >/dev/null 2>&1 || \
  echo "note: atheris not installable; C01 thorough fuzz stage will be skipped"
PYTHONPATH="$(pwd)" /venv/bin/python -c "from vlib import boot; boot.ensure_data(); print('arena shim:', boot.install_arena_shim()); print('setup ok')"
