#!/usr/bin/env python3
"""Regenerate MANIFEST.json from tools/manifest_checks.json (claimed checks) + properties.jsonl."""
import json, sys
from pathlib import Path
V = Path(__file__).resolve().parent.parent
claimed = json.loads((V / "tools" / "manifest_checks.json").read_text())
props = [json.loads(l) for l in (V / "properties.jsonl").read_text().splitlines() if l.strip()]
checks = []
na = []
for p in props:
    pid = p["id"]
    c = claimed.get(pid)
    if c is None or c.get("not_applicable"):
        na.append({"property_id": pid, "reason": (c or {}).get("not_applicable", "check not built yet in this session (see DESIGN.md section 3 for its design)")})
        continue
    checks.append({
        "property_id": pid,
        "quick_cmd": "./check %s --tier quick" % pid,
        "thorough_cmd": "./check %s --tier thorough" % pid,
        "evidence_file": "/verif/evidence/%s.json" % pid,
        "replay_cmd_template": "./check %s --replay {path}" % pid,
        "engine": "vlib",
        "level_claimed": {"category": c.get("level", "exploration"), "text": c["text"], "design_ref": "DESIGN.md section 3, %s" % pid},
        "level_note": c["note"],
        "technique": c["technique"],
    })
m = {
    "version": 1,
    "setup_cmd": "./setup.sh",
    "hooks": {
        "guard": "JEDI_VERIF",
        "enable": "no hooks: jedi is pure Python and is imported from /repo's working tree by every check (PYTHONPATH=/repo); all instrumentation is done from the harness by assigning module attributes at run time",
        "baseline_off_cmd": "cd /repo && /venv/bin/python -m pytest -ra -q -p no:cacheprovider --timeout=900 --continue-on-collection-errors",
        "source_commits": [],
        "add_only": True,
    },
    "engines": [{"name": "vlib", "path": "/verif/vlib", "serves_properties": [c["property_id"] for c in checks],
                 "kind_free_text": "Hypothesis-driven property-based testing (strategies, stateful machines), exhaustive enumeration of small finite spaces, fault injection; 16 sharded worker processes; CPython/ast/tokenize/symtable/importlib as oracles"}],
    "checks": checks,
    "notes": "Exit 0 = held on everything explored, 1 = VIOLATION line(s), 2 = harness error. known_findings.json lists genuine defects of the pinned tree (KNOWN-FINDING lines, exit 0).",
    "not_applicable": na,
}
(V / "MANIFEST.json").write_text(json.dumps(m, indent=1) + "\n")
print("claimed:", [c["property_id"] for c in checks])
