#!/bin/sh
git -C /repo worktree remove --force /tmp/wt/$1 2>/dev/null; rm -rf /tmp/wt/$1; git -C /repo worktree prune
