#!/bin/sh
# tools/mut.sh <patch.diff|-e 'sed-expr' file> -- <PID> [<PID>...]   : run quick checks against a mutated scratch copy of /repo
# usage A: tools/mut.sh path/to/patch.diff C17 C04
# usage B: tools/mut.sh "sed:jedi/api/classes.py:s/a/b/" C17
spec=$1; shift
wt=/tmp/wt/mut-$$
git -C /repo worktree add --detach $wt HEAD >/dev/null 2>&1 || exit 2
case "$spec" in
  *.py) (cd $wt && PYTHONPATH=/verif/mutants python3 "$spec") || { echo "mutant script failed"; git -C /repo worktree remove --force $wt; exit 2; }; (cd $wt && git diff --stat | tail -1);;
  sed:*) f=$(echo "$spec" | cut -d: -f2); e=$(echo "$spec" | cut -d: -f3-); sed -i "$e" $wt/$f; (cd $wt && git diff --stat | tail -1);;
  *) git -C $wt apply "$spec" || { echo "patch does not apply"; git -C /repo worktree remove --force $wt; exit 2; };;
esac
if [ -z "$(git -C $wt diff --stat)" ]; then echo "MUTANT IS A NO-OP"; fi
for pid in "$@"; do
  VERIF_REPO=$wt /verif/check $pid --tier ${TIER:-quick} 2>&1 | grep -E "VIOLATION|violated|tier=|HARNESS" | head -${LINES_MAX:-8}
done
git -C /repo worktree remove --force $wt
