#!/bin/sh
# tools/run_mutants.sh [pattern] : run hand-made mutants (mutants/cNN_*.py) against the check of their property
cd /verif
for m in mutants/c*${1:-}*.py; do
  pid=$(basename $m | cut -c1-3 | tr c C)
  out=$(tools/mut.sh /verif/$m $pid 2>&1)
  n=$(echo "$out" | grep -c "^VIOLATION")
  sigs=$(echo "$out" | grep "violated:" | sed 's/.*violated: //' | sort -u | head -2 | tr '\n' ';')
  echo "$(basename $m .py) $pid violations=$n $sigs"
done
