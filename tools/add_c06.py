#!/usr/bin/env python3
import json, glob, re, sys
RULES = [
 (r"^does-not-compile:extract_function:aligned-expr:non-value", "extract_function does not refuse a selection that is not a value expression (assignment/for target, starred, yield) and returns code that does not compile"),
 (r"^does-not-compile:extract_function:aligned-stmts$", "extract_function on a run of complete statements inside a function body returns code that does not compile (statement and 'return' glued together)"),
 (r"^does-not-compile:extract_function:arbitrary:", "extract_function does not refuse selections that are not aligned with an expression or statements (it never consults _is_expression_with_error) and returns code that does not compile"),
 (r"^does-not-compile:extract_function:cursor-only$", "extract_function with a cursor-only position picks a node that is not extractable and returns code that does not compile"),
 (r"^exception:extract_function:(cursor-only|arbitrary:[\w-]+|aligned-[\w:+-]+):crash:(TypeError|AttributeError|UnboundLocalError|IndexError)@api/refactoring/extract.py:", "extract_function raises an internal exception instead of RefactoringError (extract.py: until_pos None with a statement selection, _split_prefix_at on an end marker, end_index unbound, _remove_unwanted_expression_nodes index)"),
 (r"^behaviour-changed:extract_function:aligned-expr:value\+(binder|kwcall|binder\+kwcall)$", "extract_function passes the variable bound by a contained lambda/comprehension, or the name of a keyword argument, as an input parameter of the new function (NameError at run time)"),
 (r"^does-not-compile:extract_variable:arbitrary:", "extract_variable on a range that is not aligned with an expression returns code that does not compile (e.g. a range starting on an operator)"),
]
p='/verif/known_findings.json'; d=json.load(open(p))
have={(f['property'],f['sig']) for f in d['findings']}
for f in sorted(glob.glob('/verif/replays/C06/new-*.json')):
    r=json.load(open(f))
    if ('C06',r['sig']) in have: continue
    m=[w for pat,w in RULES if re.search(pat, r['sig'])]
    if not m:
        print('UNCLASSIFIED', r['sig'], '|', r['detail'][:300].replace('\n',' | ')); continue
    d['findings'].append({"property":"C06","status":"known","sig":r['sig'],"what":m[0]+" — "+r['detail'][:140].replace('\n',' '),"case":r['case']})
    have.add(('C06',r['sig']))
json.dump(d,open(p,'w'),indent=1,ensure_ascii=False)
print(len([f for f in d['findings'] if f['property']=='C06']),'C06 entries')
