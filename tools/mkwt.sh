#!/bin/sh
# tools/mkwt.sh <name> : scratch git worktree of /repo under /tmp/wt/<name> with the vendored typeshed stubs
# unpacked into the (empty) submodule directory so that jedi works there. Remove with tools/rmwt.sh <name>.
set -e
d=/tmp/wt/$1
mkdir -p /tmp/wt
git -C /repo worktree add --detach "$d" HEAD >/dev/null 2>&1
tar -xzf /verif/vendor/typeshed-stdlib.tar.gz -C "$d/jedi/third_party/typeshed"
echo "$d"
