#!/bin/sh
# tools/keep_seed.sh <worktree-name> <seed-id> <PID>
# Confirms a sub-agent's breakage myself (DEMO fails with the patch, passes without; pinned baseline tests still pass
# with the patch in a clean worktree WITHOUT typeshed, i.e. the state the 264 stable tests were recorded in) and stores it
# under /verif/seeded/<seed-id>/.
wt=/tmp/wt/$1; id=$2; pid=$3
out=/verif/seeded/$id; mkdir -p $out
cd $wt || exit 2
git diff -- jedi > $out/patch.diff
[ -s $out/patch.diff ] || { echo "empty patch"; exit 2; }
cp DEMO.py $out/DEMO.py; cp META.txt $out/META.txt 2>/dev/null
PYTHONPATH=$wt timeout 900 /venv/bin/python DEMO.py > $out/demo_with.log 2>&1; rc_with=$?
git checkout -- jedi
PYTHONPATH=$wt timeout 900 /venv/bin/python DEMO.py > $out/demo_without.log 2>&1; rc_without=$?
git apply $out/patch.diff
# baseline in a clean scratch worktree (no typeshed, like /repo)
sc=/tmp/wt/base-$id
git -C /repo worktree add --detach $sc HEAD >/dev/null 2>&1
git -C $sc apply $out/patch.diff; ap=$?
/verif/tools/baseline.py $sc > $out/baseline.log 2>&1; rc_base=$?
# tests that do not pass on the unpatched HEAD in this sandbox either (environment: e.g. the python3.13 pyenv shim) do not count
[ -s /tmp/wt/base_head_missing.txt ] || { /verif/tools/baseline.py /repo | grep "NOT PASSING" | sort > /tmp/wt/base_head_missing.txt; }
if [ $rc_base != 0 ]; then
  grep "NOT PASSING" $out/baseline.log | sort > /tmp/wt/missing-$id.txt
  if [ -z "$(comm -23 /tmp/wt/missing-$id.txt /tmp/wt/base_head_missing.txt)" ]; then rc_base=0; echo "(only tests that also do not pass on the unpatched HEAD here)" >> $out/baseline.log; fi
fi
git -C /repo worktree remove --force $sc
python3 - <<PY
import json
json.dump({"property": "$pid", "seed": "$id", "demo_exit_with_patch": $rc_with, "demo_exit_without_patch": $rc_without,
  "patch_applies_to_repo_head": $ap == 0, "baseline_264_pass_with_patch": $rc_base == 0,
  "ran": ["PYTHONPATH=<worktree> /venv/bin/python DEMO.py (with and without patch)", "tools/baseline.py <clean worktree + patch> (pinned 264 stable tests)"],
  "needs": open("$out/META.txt").read()[:3000] if __import__('os').path.exists("$out/META.txt") else ""},
  open("$out/meta.json", "w"), indent=1)
PY
echo "$id: demo with=$rc_with without=$rc_without apply=$ap baseline=$rc_base"
