#!/usr/bin/env python3
"""tools/baseline.py [repo-dir]: run the pinned test suite and report which BASELINE.json stable_pass tests do not pass."""
import json, subprocess, sys, tempfile, os
import xml.etree.ElementTree as ET
repo = sys.argv[1] if len(sys.argv) > 1 else '/repo'
base = json.load(open('/root/.vp/BASELINE.json'))
out = tempfile.mktemp(suffix='.xml')
cmd = f"cd {repo} && /venv/bin/python -m pytest -ra -q -p no:cacheprovider --timeout=900 --continue-on-collection-errors -n 8 --junitxml={out}"
env = dict(os.environ); env.pop('JEDI_VERIF', None)
subprocess.run(cmd, shell=True, stdout=subprocess.DEVNULL, stderr=subprocess.DEVNULL, env=env)
passed = set()
for tc in ET.parse(out).getroot().iter('testcase'):
    if not any(ch.tag in ('failure', 'error', 'skipped') for ch in tc):
        passed.add(tc.get('classname') + '::' + tc.get('name'))
os.unlink(out)
missing = [t for t in base['stable_pass'] if t not in passed]
print('stable_pass: %d, passing now: %d, missing: %d' % (len(base['stable_pass']), len(base['stable_pass']) - len(missing), len(missing)))
for m in missing[:40]: print('  NOT PASSING:', m)
sys.exit(1 if missing else 0)
