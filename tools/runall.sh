#!/bin/sh
# tools/runall.sh [seed] : run every claimed check's quick tier sequentially, print one summary line (+ violations) each
seed=${1:-1}
cd /verif
for id in $(python3 -c "import json;print(' '.join(c['property_id'] for c in json.load(open('MANIFEST.json'))['checks']))"); do
  out=$(VERIF_SEED=$seed ./check $id --tier quick 2>&1); rc=$?
  echo "$out" | grep -E "violated|tier=quick|HARNESS" | cut -c1-200 | sort | uniq -c | sed "s/^/[$id rc=$rc] /"
done
