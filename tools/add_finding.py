#!/usr/bin/env python3
"""tools/add_finding.py <PID> <replay.json> known|fixed "<what>" [commit] : append an entry to known_findings.json (design time only)."""
import json, sys
pid, rp, status, what = sys.argv[1:5]
commit = sys.argv[5] if len(sys.argv) > 5 else None
p = '/verif/known_findings.json'
try: data = json.load(open(p))
except FileNotFoundError: data = {"findings": []}
d = json.load(open(rp))
e = {"property": pid, "status": status, "sig": d["sig"], "what": what, "case": d["case"]}
if commit: e["commit"] = commit
data["findings"] = [f for f in data["findings"] if not (f["property"] == pid and f["sig"] == e["sig"] and f["case"] == e["case"])]
data["findings"].append(e)
json.dump(data, open(p, 'w'), indent=1, ensure_ascii=False)
print(len(data["findings"]), "entries")
