#!/usr/bin/env python3
"""Shrink every new C01 replay (one per signature), print it, and with --add record it as a known finding."""
import json, glob, subprocess, sys, os
add = '--add' in sys.argv
seen = set()
kf = json.load(open('/verif/known_findings.json'))
known = {f['sig'] for f in kf['findings'] if f['property'] == 'C01'}
for f in sorted(glob.glob('/verif/replays/C01/new-*.json')):
    d = json.load(open(f))
    if d['sig'] in seen or d['sig'] in known: continue
    seen.add(d['sig'])
    out = '/tmp/shr/' + os.path.basename(f).replace('.json', '.min.json')
    os.makedirs('/tmp/shr', exist_ok=True)
    r = subprocess.run(['/verif/tools/shrink.py', 'C01', f, out], capture_output=True, text=True)
    if not os.path.exists(out):
        print('COULD NOT SHRINK', d['sig'], r.stdout[-300:], r.stderr[-300:]); continue
    m = json.load(open(out))
    tail = [l for l in m['detail'].split('\n') if l.strip()][-6:]
    print('==', m['sig']); print('   text=%r pos=%s path=%s' % (m['case']['text'], m['case']['positions'], m['case']['path'])); print('   ' + '\n   '.join(tail))
    if add:
        exc = tail[-2] if tail[-1].startswith(' at ') else tail[-1]
        what = "%s on %r at %s: %s" % (m['sig'].split(':', 1)[1], m['case']['text'][:60], m['case']['positions'], exc.strip()[:120])
        subprocess.run(['/verif/tools/add_finding.py', 'C01', out, 'known', what])
