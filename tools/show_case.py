#!/usr/bin/env python3
"""tools/show_case.py <replay.json> [name...]: print the lines of the main file that mention the given names (transitively one level)."""
import json, sys, re
d = json.load(open(sys.argv[1]))
print(d['sig']); print(d['detail'][:600])
files = d['case']['files']
main = files[d['case'].get('main', 'main_mod.py')]
names = sys.argv[2:] or re.findall(r'probe (\w+)', d['detail'])
lines = main.split('\n')
want = set(names)
for _ in range(3):
    for l in lines:
        if any(re.search(r'\b%s\b' % re.escape(n), l) for n in list(want)):
            m = re.match(r'\s*(?:def |class )?([\w, ]+?)\s*(?:=|\(|:)', l)
            for w in re.findall(r'[^\W\d]\w*', l):
                if re.match(r'(pv|fun|lam|gen|K|u[abcd]_|fv|un_|meth|iattr|cattr|par_|deco|dfun|it_|cm_|hfun)', w): want.add(w)
show = set()
for i, l in enumerate(lines):
    if any(re.search(r'\b%s\b' % re.escape(n), l) for n in want):
        for j in range(i, min(len(lines), i + 1)): show.add(j)
        # include body of def/class
        if re.match(r'\s*(def|class) ', l):
            j = i + 1
            while j < len(lines) and (lines[j].startswith(' ') or not lines[j].strip()):
                show.add(j); j += 1
for i in sorted(show):
    if not lines[i].startswith('print('): print('%4d| %s' % (i + 1, lines[i]))
for k in files:
    if k != 'main_mod.py': print('---- %s (%d lines)' % (k, files[k].count('\n')))
