#!/venv/bin/python
import sys, json
sys.path.insert(0,'/verif')
from vlib.props import c03
d=json.load(open(sys.argv[1]))
print('==', d['sig']); print(d['detail'][:400])
src=c03.render(d['case']['shape'])
for i,l in enumerate(src.lines[len(c03.PRELUDE):-2], len(c03.PRELUDE)+1): print('%3d| %s'%(i,l))
