#!/bin/sh
# tools/run_seeds.sh : run every seeded breakage against the check of the property it targets; one line per seed
cd /verif
for d in seeded/*/; do
  id=$(basename $d); pid=$(python3 -c "import json;print(json.load(open('$d/meta.json'))['property'])")
  out=$(tools/mut.sh /verif/$d/patch.diff $pid 2>&1)
  n=$(echo "$out" | grep -c "^VIOLATION")
  sigs=$(echo "$out" | grep "violated:" | sed 's/.*violated: //' | sort -u | head -3 | tr '\n' ';')
  echo "$id $pid violations=$n $sigs"
done
