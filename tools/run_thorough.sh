#!/bin/sh
# tools/run_thorough.sh [ids...] : run thorough tiers sequentially; one summary block per property in /tmp/thorough.log
cd /verif
ids=${*:-C06 C05 C02 C03 C08 C16 C04 C10 C17 C18 C07 C11 C13 C12 C19 C20 C09 C14 C15 C01}
for id in $ids; do
  out=$(VERIF_KEEP_UNREPRO=/tmp/unrepro-$id ./check $id --tier thorough 2>&1); rc=$?
  echo "=== $id rc=$rc $(date +%H:%M)"
  echo "$out" | grep -E "violated|detail|VIOLATION|tier=thorough|HARNESS" | cut -c1-400
  mkdir -p /tmp/thorough-replays/$id; cp -r replays/$id/. /tmp/thorough-replays/$id/ 2>/dev/null
done
