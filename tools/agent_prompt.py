#!/usr/bin/env python3
"""tools/agent_prompt.py <PID> <worktree-name> [hint]: prints the prompt for a breakage sub-agent (property text only)."""
import json, sys
pid, wt = sys.argv[1], sys.argv[2]
hint = sys.argv[3] if len(sys.argv) > 3 else ""
p = [json.loads(l) for l in open('/verif/properties.jsonl') if l.strip()]
p = [x for x in p if x['id'] == pid][0]
print(f"""You are helping to evaluate a verification effort for the open-source Python library davidhalter/jedi (static analysis / autocompletion). Your job is to act as a source of REALISTIC BREAKAGE: produce one code change to jedi that silently breaks the semantic property below while the library still imports and its existing test suite still passes.

## The property ({pid}: {p['title']})

Statement: {p['statement']}

Quantified over: {p['quantifier']['text']}

Code that is meant to make it hold lives mainly in: {', '.join(p['anchors']['files'])}

## Your workspace

A scratch git worktree of the repository at the pinned commit: `/tmp/wt/{wt}` . Work ONLY inside that directory (never touch /repo or /verif; do not read anything under /verif). Use `/venv/bin/python` (3.12, has parso, pytest, hypothesis) with `PYTHONPATH=/tmp/wt/{wt}` so that `import jedi` picks up the worktree. jedi needs typeshed stubs to work; the stdlib stubs were unpacked for you into `jedi/third_party/typeshed/stdlib` inside the worktree (an untracked submodule directory: leave it alone, it must not be part of your patch). There is no network. Never let jedi look up interpreters on PATH (avoid `get_system_environment`); the default environment (same interpreter) is fine.

## What to deliver

1. A change to files under `jedi/` in the worktree (a realistic mistake a maintainer could make in a refactoring, optimisation or bug fix: an off-by-one, a dropped guard, a cache keyed too coarsely, a wrong operator, a lost `sorted`, two sites that each look fine alone, ...). It must NOT be something ordinary use exposes at once: it should need something specific to manifest — an unusual but valid input shape, a particular multi-step sequence of operations, a particular interleaving or crash point, a particular layout — while ordinary inputs keep working. Keep it small (typically 1-15 changed lines). Do not touch tests. {hint}
2. `/tmp/wt/{wt}/DEMO.py`: a small stand-alone program, run as `PYTHONPATH=/tmp/wt/{wt} /venv/bin/python DEMO.py`, that exercises jedi's public API, checks the property on a concrete input, and exits 0 when the property holds and exits 1 (printing what went wrong) when it is violated. It must exit 1 with your change and exit 0 without it (verify both with `git diff -- jedi > patch.diff; git checkout -- jedi; <run>; git apply patch.diff`; NEVER use `git stash`: the stash is shared with other worktrees of this repository that other people are using at the same time).
3. The test suite must pass as before. Run `cd /tmp/wt/{wt} && /venv/bin/python -m pytest -q -p no:cacheprovider --timeout=900 -n 6 -rf test jedi 2>&1 | grep -E "^(FAILED|ERROR)" | sort > /tmp/wt/{wt}/fails_before.txt` once WITHOUT your change (several thousand tests fail already in this sandbox for environment reasons - a broken python3.12 shim on PATH - that is expected) and the same into `fails_after.txt` WITH it; `diff fails_before.txt fails_after.txt` must show no additional failing test (a handful of flaky ones aside - re-run those individually).
4. Leave the change APPLIED in the worktree and write `/tmp/wt/{wt}/patch.diff` (output of `git diff -- jedi`), and `/tmp/wt/{wt}/META.txt` with: which clause of the property it breaks, what exactly is needed for it to manifest, and the commands you ran with their outcome (test counts before/after, DEMO exit codes before/after).

Reply with a short summary (the idea of the change, what it needs to manifest, test results). If after serious effort you cannot find a change that both breaks the property and keeps the tests passing, say so plainly rather than delivering something that does not meet the bar.""")
