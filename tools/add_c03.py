#!/usr/bin/env python3
import json, glob, sys
WHAT = {
 "lands-in-enclosing-class": "goto from a class body nested in another class lands on the outer class's binding (Python skips enclosing class scopes; jedi's class contexts see their parent class context)",
 "lands-in-enclosing-function": "goto from a scope whose name Python resolves in the module (class-body use before the class's own binding / name declared global) lands on the enclosing function's binding",
}
p='/verif/known_findings.json'; d=json.load(open(p))
have={(f['property'],f['sig']) for f in d['findings']}
for f in sorted(glob.glob('/verif/replays/C03/new-*.json')):
    r=json.load(open(f))
    if ('C03',r['sig']) in have: continue
    import re
    ok = re.search(r"use-in-class(\+\w+-decl)?:lands-in-enclosing-(class|function)$", r['sig']) or \
         re.search(r"use-in-\w+\+(inherited-)?global-decl:lands-in-enclosing-function$", r['sig']) or \
         re.search(r"use-in-(comprehension|lambda)(\+\w+-decl)?:lands-in-enclosing-class$", r['sig'])
    key=[k for k in WHAT if r['sig'].endswith(k)] if ok else []
    if re.search(r"^straight-line-not-exact:use-in-\w+:in-lambda-default$", r['sig']) or \
       re.search(r"^goto-lands-on-unconsulted-binding:use-in-class(\+[\w-]+)?:in-lambda-default:lands-in-enclosing-(module|function)$", r['sig']):
        d['findings'].append({"property":"C03","status":"known","sig":r['sig'],"what":"a name used in the default value of a lambda parameter is looked up from the lambda's own context without a position limit: goto returns bindings of the enclosing scope that come textually after the lambda (and skips an enclosing class body although the default is evaluated there)","case":r['case']})
        have.add(('C03',r['sig'])); continue
    if not key: print('UNCLASSIFIED', r['sig']); continue
    d['findings'].append({"property":"C03","status":"known","sig":r['sig'],"what":WHAT[key[0]]+" ["+r['sig'].split(':',1)[1]+"]","case":r['case']})
    have.add(('C03',r['sig']))
json.dump(d,open(p,'w'),indent=1,ensure_ascii=False)
print(len([f for f in d['findings'] if f['property']=='C03']),'C03 entries')
