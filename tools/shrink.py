#!/venv/bin/python
"""tools/shrink.py <PID> <replay.json> [out.json]: ddmin a text-based replay case while the same signature persists."""
import sys, json, importlib, copy
sys.path.insert(0, '/verif')
from vlib import boot, core
pid, src = sys.argv[1], sys.argv[2]
mod = importlib.import_module('vlib.props.' + pid.lower())
d = json.load(open(src))
sig, case = d['sig'], d['case']
boot.install_arena_shim(); boot.jedi_boot()

def fails(c):
    ctx = core.Ctx(pid, 1, 0, 1, 'quick'); ctx.replaying = True
    try:
        mod.replay(ctx, c)
    except core.Inconclusive:
        return False
    except Exception:
        return False
    return any(v['sig'] == sig for v in ctx.violations)

assert fails(case), 'does not reproduce'
def with_(c, **kw):
    c = copy.deepcopy(c); c.update(kw); return c
# positions: single
if 'positions' in case:
    for p in case['positions']:
        c2 = with_(case, positions=[p])
        if fails(c2):
            case = c2; break
key = 'text'
def ddmin(items, join, build):
    global case
    n = 2
    while len(items) >= 2:
        chunk = max(1, len(items) // n)
        reduced = False
        for i in range(0, len(items), chunk):
            cand = items[:i] + items[i+chunk:]
            c2 = build(join(cand), len(join(items[:i])), len(join(items[i:i+chunk])))
            if c2 is not None and fails(c2):
                items = cand; case = c2; n = max(n - 1, 2); reduced = True; break
        if not reduced:
            if chunk == 1: break
            n = min(len(items), n * 2)
    return items
def build(newtext, cut_at, cut_len):
    # adjust positions: recompute by offset
    from vlib import corpus
    c2 = copy.deepcopy(case)
    old = case['text']
    newpos = []
    for (l, c) in case.get('positions', []):
        lines = corpus.split_lines(old)
        if not (1 <= l <= len(lines)): newpos.append([l, c]); continue
        off = sum(len(x) for x in lines[:l-1]) + c
        if off >= cut_at + cut_len: off -= cut_len
        elif off > cut_at: off = cut_at
        pre = newtext[:off]; pl = corpus.split_lines(pre)
        newpos.append([len(pl), len(pl[-1])])
    c2['text'] = newtext
    if 'positions' in c2: c2['positions'] = newpos
    return c2
from vlib import corpus
lines = corpus.split_lines(case['text'])
lines = ddmin(lines, ''.join, build)
chars = list(case['text'])
if len(chars) < 400:
    chars = ddmin(chars, ''.join, build)
for k in ('search',):
    if k in case and fails(with_(case, **{k: 'x'})): case[k] = 'x'
out = sys.argv[3] if len(sys.argv) > 3 else src.replace('.json', '.min.json')
d['case'] = case
ctx = core.Ctx(pid, 1, 0, 1, 'quick'); ctx.replaying = True; mod.replay(ctx, case)
d['detail'] = [v['detail'] for v in ctx.violations if v['sig'] == sig][0]
json.dump(d, open(out, 'w'), indent=1)
print(sig); print(repr(case['text']), case.get('positions')); print(d['detail'])
