"""G4 — generator of project directory trees (modules, regular/namespace packages, clashes, several roots)."""
from hypothesis import strategies as st

NODE_NAMES = ["alpha", "beta", "gamma", "nsp", "util"]
ROOT_NAMES = ["pk", "pkg2", "lib"]


@st.composite
def _tree(draw, prefix, depth, files, dirs, marker):
    """Populate `files` with marker modules below directory `prefix` (relative posix path)."""
    # depth 1..4 below a root: packages three deep are needed for `from ... import x` to stay inside the top package
    names = draw(st.lists(st.sampled_from(NODE_NAMES), min_size=1, max_size=3 if depth < 3 else 2, unique=True))
    for n in names:
        kind = draw(st.sampled_from(["module", "module", "package", "package", "namespace", "both"]))
        if depth >= 4 and kind != "module":
            kind = "module"
        if kind in ("module", "both"):
            files["%s/%s.py" % (prefix, n)] = marker("%s/%s.py" % (prefix, n))
        if kind in ("package", "both", "namespace"):
            d = "%s/%s" % (prefix, n)
            dirs.append(d)
            if kind != "namespace":
                files[d + "/__init__.py"] = marker(d + "/__init__.py")
            draw(_tree(d, depth + 1, files, dirs, marker))


@st.composite
def layouts(draw, marker=lambda rel: 'NAME = %r\n' % rel):
    populated = draw(st.lists(st.sampled_from(ROOT_NAMES), min_size=1, max_size=3, unique=True))
    files, dirs = {}, []
    for r in populated:
        dirs.append(r)
        draw(_tree(r, 1, files, dirs, marker))
    if len(populated) >= 2 and draw(st.integers(0, 2)) == 0:
        # a PEP 420 namespace package split over several roots, with overlapping sub-module names in its portions
        ns = draw(st.sampled_from(["splitns", "nsp"]))
        for r in populated:
            for f in [k for k in files if k.startswith("%s/%s/" % (r, ns)) or k == "%s/%s.py" % (r, ns)]:
                del files[f]
            d = "%s/%s" % (r, ns)
            if d not in dirs:
                dirs.append(d)
            for sub in draw(st.lists(st.sampled_from(["alpha", "beta", "common"]), min_size=1, max_size=3, unique=True)):
                files["%s/%s.py" % (d, sub)] = marker("%s/%s.py" % (d, sub))
    nested_root = draw(st.integers(0, 3)) == 0      # the common parent is a sys.path entry too
    if nested_root and len(populated) > 1:
        # some populated directories are then reachable only through the parent (as top-level packages)
        roots = draw(st.lists(st.sampled_from(populated), min_size=0, max_size=len(populated), unique=True))
    else:
        roots = list(populated)
    order = draw(st.permutations(roots + (["."] if nested_root else [])))
    return {"roots": list(order), "files": files, "dirs": dirs}


def dotted_names(layout):
    """All dotted names that some root could provide (for drawing import targets), with duplicates removed."""
    out = set()
    for rel in layout["files"]:
        parts = rel.split("/")
        root, rest = parts[0], parts[1:]
        if rest[-1] == "__init__.py":
            rest = rest[:-1]
        else:
            rest = rest[:-1] + [rest[-1][:-3]]
        for i in range(1, len(rest) + 1):
            out.add(".".join(rest[:i]))
    for d in layout["dirs"]:
        parts = d.split("/")[1:]
        if parts:
            out.add(".".join(parts))
    return sorted(out)
