"""Shared helpers for the refactoring properties (C06, C07): selections from ast, unified-diff applier, snapshots."""
import io
import os
import re
import ast
import tokenize
from pathlib import Path
from . import corpus
from .oracles import pyfront


# --------------------------------------------------------------------------------------------- selections
def expression_ranges(text):
    """[(line, col, end_line, end_col, info)] for every expression node with an exact source range (CPython ast).
    info = {pure_once: bool, kind: node class name}.  pure_once follows the property's quantifier: not an assignment
    target, not a while-condition, not inside a lambda/comprehension whose variable it mentions, no walrus."""
    src = pyfront.lf(text)
    tree = ast.parse(src)
    lines = src.split("\n")
    out = []

    def cc(lineno, off):
        return pyfront._char_col(lines, lineno, off)

    binders = []      # (node, bound names) for lambdas / comprehensions

    class V(ast.NodeVisitor):
        def __init__(self):
            self.stack = []          # enclosing lambda/comprehension bound names
            self.in_while_test = 0
            self.in_target = 0
            self.in_header = 0

        def generic_visit(self, node):
            if isinstance(node, ast.expr) and hasattr(node, "end_lineno"):
                names = {n.id for n in ast.walk(node) if isinstance(n, ast.Name)}
                bound_here = set().union(*self.stack) if self.stack else set()
                has_walrus = any(isinstance(n, ast.NamedExpr) for n in ast.walk(node))
                has_yield = any(isinstance(n, (ast.Yield, ast.YieldFrom, ast.Await)) for n in ast.walk(node))
                store = isinstance(getattr(node, "ctx", None), (ast.Store, ast.Del))
                pure = not store and not self.in_while_test and not self.in_target and not (names & bound_here) \
                    and not has_walrus and not has_yield and not self.in_header \
                    and not isinstance(node, (ast.Starred, ast.Lambda, ast.JoinedStr, ast.FormattedValue, ast.Slice)) \
                    and not (names & {"super", "__class__"})
                # (zero-argument super() is compiler magic tied to the text of the enclosing method: moving the name
                # elsewhere changes its meaning - not a "side-effect-free selection" in the property's sense; such
                # selections are still judged for compile-or-refuse)
                out.append((node.lineno, cc(node.lineno, node.col_offset), node.end_lineno, cc(node.end_lineno, node.end_col_offset),
                            {"pure_once": pure, "kind": type(node).__name__,
                             "value": not store and not isinstance(node, (ast.Starred, ast.Yield, ast.YieldFrom, ast.Await, ast.Slice)) and not self.in_target,
                             "binder": any(isinstance(n, (ast.Lambda, ast.ListComp, ast.SetComp, ast.DictComp, ast.GeneratorExp)) for n in ast.walk(node)),
                             "kwcall": any(isinstance(n, ast.Call) and n.keywords for n in ast.walk(node))}))
                # the CONTENTS of a bracketed display or comprehension (everything between the brackets): not an ast node of
                # its own, but one node of the parser under test ('a + 1, b * 2' in '[a + 1, b * 2]')
                if isinstance(node, (ast.List, ast.Set, ast.Tuple, ast.ListComp, ast.SetComp, ast.GeneratorExp)) \
                        and node.lineno == node.end_lineno and (not isinstance(node, (ast.List, ast.Set, ast.Tuple)) or len(node.elts) >= 2):
                    ln_ = lines[node.lineno - 1]
                    a_, b_ = cc(node.lineno, node.col_offset), cc(node.end_lineno, node.end_col_offset)
                    if ln_[a_:a_ + 1] in ("(", "[", "{") and ln_[b_ - 1:b_] in (")", "]", "}"):
                        inner = ln_[a_ + 1:b_ - 1]
                        lead, trail = len(inner) - len(inner.lstrip()), len(inner) - len(inner.rstrip())
                        if inner.strip():
                            out.append((node.lineno, a_ + 1 + lead, node.end_lineno, b_ - 1 - trail,
                                        {"pure_once": pure and isinstance(node, (ast.List, ast.Set, ast.Tuple)), "kind": "Contents", "contents": True,
                                         "value": True, "binder": False, "kwcall": False}))
            super().generic_visit(node)

        def visit_Lambda(self, node):
            a = node.args
            bound = {x.arg for x in a.posonlyargs + a.args + a.kwonlyargs + ([a.vararg] if a.vararg else []) + ([a.kwarg] if a.kwarg else [])}
            ast.NodeVisitor.generic_visit(self, node.args)
            self.stack.append(bound)
            self.generic_visit_expr(node.body)
            self.stack.pop()

        def generic_visit_expr(self, node):
            self.visit(node)

        def _comp(self, node):
            bound = {n.id for g in node.generators for n in ast.walk(g.target) if isinstance(n, ast.Name)}
            self.stack.append(bound)
            self.generic_visit(node)
            self.stack.pop()
        visit_ListComp = visit_SetComp = visit_DictComp = visit_GeneratorExp = _comp

        def visit_While(self, node):
            self.in_while_test += 1
            self.visit(node.test)
            self.in_while_test -= 1
            for s in node.body + node.orelse:
                self.visit(s)

        def _assign(self, node):
            targets = node.targets if isinstance(node, ast.Assign) else [node.target]
            self.in_target += 1
            for t in targets:
                self.visit(t)
            self.in_target -= 1
            if getattr(node, "value", None) is not None:
                self.visit(node.value)
            if getattr(node, "annotation", None) is not None:
                self.in_header += 1
                self.visit(node.annotation)
                self.in_header -= 1
        visit_Assign = visit_AnnAssign = visit_AugAssign = _assign

        def _funcdef(self, node):
            # defaults, annotations and decorators are evaluated once at definition time in the enclosing scope, but an
            # extraction would move them relative to the def: keep them out of the equivalence stream
            self.in_header += 1
            for d in node.decorator_list:
                self.visit(d)
            ast.NodeVisitor.generic_visit(self, node.args)
            if node.returns is not None:
                self.visit(node.returns)
            self.in_header -= 1
            for s in node.body:
                self.visit(s)
        visit_FunctionDef = visit_AsyncFunctionDef = _funcdef

        def visit_ClassDef(self, node):
            self.in_header += 1
            for d in node.decorator_list + node.bases + [k.value for k in node.keywords]:
                self.visit(d)
            self.in_header -= 1
            for s in node.body:
                self.visit(s)

        def visit_For(self, node):
            self.in_target += 1
            self.visit(node.target)
            self.in_target -= 1
            self.visit(node.iter)
            for s in node.body + node.orelse:
                self.visit(s)

        def visit_With(self, node):
            for it in node.items:
                self.visit(it.context_expr)
                if it.optional_vars is not None:
                    self.in_target += 1
                    self.visit(it.optional_vars)
                    self.in_target -= 1
            for s in node.body:
                self.visit(s)

    V().visit(tree)
    return out


def statement_runs(text):
    """[(line, col, end_line, end_col)] of maximal runs of complete statements inside function bodies (and prefixes)."""
    src = pyfront.lf(text)
    tree = ast.parse(src)
    lines = src.split("\n")
    out = []
    for fn in ast.walk(tree):
        if isinstance(fn, (ast.FunctionDef, ast.AsyncFunctionDef)):
            body = [s for s in fn.body if not (isinstance(s, ast.Expr) and isinstance(getattr(s, "value", None), ast.Constant) and isinstance(s.value.value, str))]
            for i in range(len(body)):
                for j in range(i, min(len(body), i + 3)):
                    a, b = body[i], body[j]
                    out.append((a.lineno, pyfront._char_col(lines, a.lineno, a.col_offset), b.end_lineno,
                                pyfront._char_col(lines, b.end_lineno, b.end_col_offset), run_shape(body[i:j + 1])))
    return out


def run_shape(stmts):
    """Syntactic class of a run of statements, by how it binds names (for grouping deviations by root cause)."""
    aug = cond = False
    for s_ in stmts:
        for n in ast.walk(s_):
            if isinstance(n, ast.AugAssign):
                aug = True
        if isinstance(s_, (ast.If, ast.For, ast.While, ast.Try, ast.With)):
            if any(isinstance(n, (ast.Assign, ast.AugAssign, ast.AnnAssign, ast.For, ast.NamedExpr)) for n in ast.walk(s_)):
                cond = True
    return (":binds-under-condition" if cond else "") + (":augmented-assignment" if aug else "")


def selection_class(text, line, col, uline, ucol):
    """Class of an arbitrary (pos, until_pos) range relative to CPython's tokens."""
    try:
        toks = [t for t in pyfront.tokens(text) if t.type not in (tokenize.NL, tokenize.NEWLINE, tokenize.INDENT, tokenize.DEDENT,
                                                                      tokenize.ENDMARKER, tokenize.COMMENT)]
    except Exception:
        return "untokenizable"
    start, end = (line, col), (uline, ucol)
    if end <= start:
        return "empty-or-reversed"
    inside = [t for t in toks if t.start < end and t.end > start]
    if not inside:
        return "whitespace-only"
    if any(t.start < start < t.end or t.start < end < t.end for t in inside):
        return "mid-token"
    if inside[0].type == tokenize.OP and inside[0].string not in "([{-+~" or inside[0].string in ("and", "or", "not", "in", "is", "if", "else"):
        return "starts-on-operator"
    if inside[-1].type == tokenize.OP and inside[-1].string not in ")]}":
        return "ends-on-operator"
    kw = {t.string for t in inside if t.type == tokenize.NAME}
    if kw & {"def", "class", "import", "from", "return", "for", "while", "if", "with", "try", "except", "lambda", "global"}:
        return "covers-statement-keyword"
    logical = {t.start[0] for t in inside}
    if len(logical) > 1:
        return "crosses-lines"
    depth = 0
    for t in inside:
        if t.string in "([{":
            depth += 1
        elif t.string in ")]}":
            depth -= 1
            if depth < 0:
                return "unbalanced-brackets"
    if depth != 0:
        return "unbalanced-brackets"
    if any(t.string == "=" for t in inside):
        return "covers-assignment"
    return "token-aligned"


# --------------------------------------------------------------------------------------------- unified diff
class DiffError(Exception):
    pass


def parse_unified(diff):
    """-> (renames [(from, to)], [ {from, to, hunks: [(old_start, old_len, new_start, new_len, lines)]} ])"""
    lines = corpus.split_lines(diff)
    lines = [l for l in lines]
    i = 0
    renames, files = [], []
    cur = None
    while i < len(lines):
        l = lines[i]
        if l.startswith("rename from "):
            a = l[len("rename from "):].rstrip("\n")
            i += 1
            if i >= len(lines) or not lines[i].startswith("rename to "):
                raise DiffError("rename from without rename to")
            renames.append((a, lines[i][len("rename to "):].rstrip("\n")))
            i += 1
        elif l.startswith("--- "):
            if i + 1 >= len(lines) or not lines[i + 1].startswith("+++ "):
                raise DiffError("--- without +++")
            cur = {"from": l[4:].rstrip("\n").strip(), "to": lines[i + 1][4:].rstrip("\n").strip(), "hunks": []}
            files.append(cur)
            i += 2
        elif l.startswith("@@"):
            m = re.match(r"@@ -(\d+)(?:,(\d+))? \+(\d+)(?:,(\d+))? @@", l)
            if not m or cur is None:
                raise DiffError("bad hunk header %r" % l)
            os_, ol, ns, nl = int(m.group(1)), int(m.group(2) or 1), int(m.group(3)), int(m.group(4) or 1)
            i += 1
            body = []
            want_old, want_new = ol, nl
            while i < len(lines) and (want_old > 0 or want_new > 0):
                h = lines[i]
                if h.startswith("--- ") and i + 1 < len(lines) and lines[i + 1].startswith("+++ ") and want_old <= 1 and want_new <= 1:
                    break          # next file's header (the hunk was one stripped context line short, see below)
                if h.startswith("rename from "):
                    break
                if h.startswith(" ") or h in ("\n", "\r\n"):
                    want_old -= 1
                    want_new -= 1
                elif h.startswith("-"):
                    want_old -= 1
                elif h.startswith("+"):
                    want_new -= 1
                elif h == "":
                    break
                else:
                    raise DiffError("unexpected line in hunk: %r" % h)
                body.append(h)
                i += 1
            if want_old == 1 and want_new == 1 and (i >= len(lines) or lines[i] == "" or lines[i].startswith(("--- ", "rename "))):
                # jedi's line model has an empty last line after a final newline; difflib emits it as a context line
                # consisting of one space, which get_diff() strips ("there's a space at the end of the diff").  GNU
                # patch accepts the result; the applier re-adds that empty context line.
                body.append(" ")
                want_old = want_new = 0
            if want_old != 0 or want_new != 0:
                raise DiffError("hunk line counts do not add up (%d old, %d new left)" % (want_old, want_new))
            cur["hunks"].append((os_, ol, ns, nl, body))
        elif l == "":
            i += 1
        else:
            raise DiffError("unexpected line outside hunk: %r" % l[:60])
    return renames, files


def apply_hunks(old_text, hunks):
    """Apply hunks to old_text (jedi's line model; a missing final newline is normalised as get_diff documents)."""
    old = corpus.split_lines(old_text)
    if old[-1] != "":
        old[-1] += "\n"
    out = []
    pos = 0           # index into old (0-based)
    for os_, ol, ns, nl, body in hunks:
        start = os_ - 1 if ol else os_
        if start < pos:
            raise DiffError("overlapping hunks")
        out.extend(old[pos:start])
        pos = start
        for h in body:
            tag, content = (h[0], h[1:]) if h[:1] in " -+" else (" ", h)
            if tag in " -":
                if pos >= len(old) or old[pos] != content:
                    raise DiffError("context/removed line does not match the original at line %d: %r vs %r" % (pos + 1, content[:40], old[pos][:40] if pos < len(old) else None))
                pos += 1
                if tag == " ":
                    out.append(content)
            else:
                out.append(content)
    out.extend(old[pos:])
    return "".join(out)


def normalise_final_newline(text):
    lines = corpus.split_lines(text)
    if lines[-1] != "":
        return text + "\n"
    return text


# --------------------------------------------------------------------------------------------- snapshots
def snapshot(root):
    out = {}
    root = Path(root)
    for p in sorted(root.rglob("*")):
        if p.is_file():
            out[str(p.relative_to(root))] = p.read_bytes()
        elif p.is_dir():
            out[str(p.relative_to(root)) + "/"] = None
    return out
