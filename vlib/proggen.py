"""G1 — generator of executable Python programs over jedi's documented feature list.

Programs are built *by construction*: the builder tracks an abstract descriptor for every variable so that every
generated expression is well-formed and evaluation terminates without raising.  The descriptors are NOT the oracle
(the run in a fresh interpreter is, see vlib/tracer.py); they only steer generation and say where exactly one value
can reach an expression (`exact`).

Layout (the style of jedi's own test/completion files): every interesting value is bound once to a fresh module-level
variable `pvN = <expr>` followed by a line with the bare name `pvN`; probes sit on that bare name.

Descriptors:  ('int',) ('str',) ('float',) ('bool',) ('none',)  ('list', d) ('tuple', (d..)) ('dict', dk, dv) ('set', d)
              ('inst', cls) ('cls', cls) ('fn', name) ('mod', name) ('exc', name) ('gen', d)
"""
from hypothesis import strategies as st

SCALARS = [("int",), ("str",), ("float",), ("bool",), ("none",)]
LIT = {"int": ["1", "42", "-7", "0"], "str": ["'a'", "'hello'", "\"x y\"", "''"], "float": ["1.5", "0.25"],
       "bool": ["True", "False"], "none": ["None"]}
BUILTIN_NAME = {"int": "int", "str": "str", "float": "float", "bool": "bool", "none": "NoneType", "list": "list",
                "tuple": "tuple", "dict": "dict", "set": "set"}
WORDS = ["alpha", "bravo", "charlie", "delta", "echo", "foxtrot", "golf", "hotel", "india", "juliet", "kilo", "lima",
         "mike", "november", "oscar", "papa", "quebec", "romeo", "sierra", "tango", "uniform", "victor", "whisky",
         "xray", "yankee", "zulu"]


# shapes with a confirmed finding (see known_findings.json): values produced by them are not fed into later expressions,
# so that the search continues behind them ("excluded by construction")
TAINT = {"recursion-literal-guard", "star-unpacking-tail", "unary-minus-on-computed-number"}


class Var:
    def __init__(self, name, d, exact=True, tags=()):
        self.name, self.d, self.exact, self.tags = name, d, exact, tuple(tags)
        self.usable = not (set(tags) & TAINT)


class ClassInfo:
    def __init__(self, name, module):
        self.name, self.module = name, module
        self.bases = []
        self.init = []          # [(param, descriptor)] excluding self
        self.attrs = {}         # instance/class attribute -> descriptor (own, not inherited)
        self.methods = {}       # name -> (kind, [(param, d)], return descriptor or ('param', i)) ; kind in method/static/class/property
        self.protocols = {}     # '__call__': d, '__getitem__': d, '__iter__': d, '__enter__': d
        self.line = None

    def mro(self, classes):
        out = [self]
        for b in self.bases:
            for c in classes[b].mro(classes):
                if c not in out:
                    out.append(c)
        return out


class Module:
    def __init__(self, name):
        self.name = name
        self.lines = []
        self.vars = []
        self.probes = []        # [{id, name, line, col, d, exact, tags}]
        self.observe = []       # print statements appended at the end (behaviour for C05/C06)

    def source(self):
        return "\n".join(self.lines + self.observe) + "\n"


class Program:
    def __init__(self):
        self.modules = []       # helper modules first, main module last
        self.classes = {}
        self.funcs = {}         # name -> (module, [(param, kind)], ret)  ret: descriptor or ('param', i)
        self.features = set()

    def files(self):
        return {m.name + ".py": m.source() for m in self.modules}

    @property
    def main(self):
        return self.modules[-1]


class Builder:
    def __init__(self, draw, prog, mod, ident_pool):
        self.draw, self.prog, self.mod = draw, prog, mod
        self.pool = ident_pool
        self.n = 0

    # ---------------------------------------------------------------- naming / emission
    def fresh(self, stem):
        # one counter per program: names are unique across its modules
        self.prog.counter = getattr(self.prog, "counter", 0) + 1
        n = self.prog.counter
        w = self.pool[(n * 7 + len(stem)) % len(self.pool)]
        return "%s_%s%d" % (stem, w, n)

    def emit(self, *lines):
        self.mod.lines.extend(lines)

    def bind(self, expr, d, exact=True, tags=(), stem="pv"):
        """pvN = expr ; bare use line ; probe."""
        name = self.fresh(stem)
        self.emit("%s = %s" % (name, expr))
        self.emit(name)
        v = Var(name, d, exact, tags)
        self.mod.vars.append(v)
        self.mod.probes.append({"id": len(self.mod.probes), "name": name, "line": len(self.mod.lines), "col": 1,
                                "d": d, "exact": exact, "tags": list(tags)})
        self.observe(v)
        return v

    def observe(self, v):
        k = v.d[0]
        if k in ("int", "str", "float", "bool", "none"):
            self.mod.observe.append("print(%r, %s)" % (v.name[-6:], v.name))
        elif k == "inst":
            self.mod.observe.append("print(%r, isinstance(%s, %s))" % (v.name[-6:], v.name, self.qual(v.d[1])))
        elif k in ("list", "tuple", "set", "dict"):
            self.mod.observe.append("print(%r, len(%s))" % (v.name[-6:], v.name))

    def qual(self, cname):
        ci = self.prog.classes[cname]
        if ci.module == self.mod.name:
            return cname
        return self.imports.get(cname, cname)

    imports = {}

    # ---------------------------------------------------------------- value selection
    def vars_where(self, pred):
        return [v for v in self.mod.vars if v.usable and pred(v)]

    def some_var(self, pred=lambda v: True):
        c = self.vars_where(pred)
        if not c:
            return None
        return self.draw(st.sampled_from(c))

    def scalar(self):
        """(expr, descriptor, exact) of a scalar: an existing variable or a literal."""
        v = self.some_var(lambda v: v.d[0] in LIT) if self.draw(st.booleans()) else None
        if v is not None:
            return v.name, v.d, v.exact
        k = self.draw(st.sampled_from(["int", "str", "float", "bool", "none", "int", "str"]))
        return self.draw(st.sampled_from(LIT[k])), (k,), True

    def value(self, allow_inst=True):
        """(expr, descriptor, exact) of any available value."""
        if allow_inst and self.draw(st.integers(0, 2)) == 0:
            v = self.some_var(lambda v: v.d[0] in ("inst", "list", "tuple", "dict"))
            if v is not None:
                return v.name, v.d, v.exact
        return self.scalar()

    def arg_for(self, d):
        """An expression of descriptor d (for calling a constructor with fixed parameter kinds)."""
        v = self.some_var(lambda v: v.d == d and v.exact)
        if v is not None and self.draw(st.booleans()):
            return v.name
        return self.construct(d)

    def construct(self, d):
        k = d[0]
        if k in LIT:
            return self.draw(st.sampled_from(LIT[k]))
        if k == "inst":
            ci = self.prog.classes[d[1]]
            return "%s(%s)" % (self.qual(d[1]), ", ".join(self.construct(pd) for _, pd in self.init_of(ci)))
        if k == "list":
            return "[%s]" % self.construct(d[1])
        if k == "tuple":
            return "(%s,)" % ", ".join(self.construct(x) for x in d[1])
        if k == "dict":
            return "{%s: %s}" % (self.construct(d[1]), self.construct(d[2]))
        if k == "set":
            return "{%s}" % self.construct(d[1])
        raise ValueError(d)

    def init_of(self, ci):
        for c in ci.mro(self.prog.classes):
            if c.init is not None and ("__init__" in c.methods or c.init):
                return c.init
        return []

    def attr_of(self, cname, attr):
        for c in self.prog.classes[cname].mro(self.prog.classes):
            if attr in c.attrs:
                return c.attrs[attr]
        return None

    def all_attrs(self, cname):
        out = {}
        for c in reversed(self.prog.classes[cname].mro(self.prog.classes)):
            out.update(c.attrs)
        return out

    def all_methods(self, cname):
        out = {}
        for c in reversed(self.prog.classes[cname].mro(self.prog.classes)):
            out.update(c.methods)
        return out

    def all_protocols(self, cname):
        out = {}
        for c in reversed(self.prog.classes[cname].mro(self.prog.classes)):
            out.update(c.protocols)
        return out


# ------------------------------------------------------------------------------------------------ productions
def p_literals(b):
    b.prog.features.add("literals")
    for _ in range(b.draw(st.integers(1, 3))):
        e, d, _x = b.scalar()
        v = b.bind(e, d, _x)
        # attribute / method access on a builtin value (e.g. on a variable holding a number literal)
        if d[0] in ("int", "float", "bool") and b.draw(st.booleans()):
            b.bind("%s.real" % v.name, ("float",) if d[0] == "float" else ("int",), _x, ["builtin-attribute"])
        elif d[0] == "str" and b.draw(st.booleans()):
            b.bind("%s.upper()" % v.name, ("str",), _x, ["builtin-method"])
    e1, d1, x1 = b.value()
    e2, d2, x2 = b.value()
    kind = b.draw(st.sampled_from(["list", "tuple", "dict", "set", "nested"]))
    if kind == "list":
        v = b.bind("[%s, %s]" % (e1, e1), ("list", d1), x1)
        b.bind("%s[0]" % v.name, d1, x1, ["index"])
        b.bind("%s[-1]" % v.name, d1, x1, ["index"])
    elif kind == "tuple":
        v = b.bind(("(%s, %s)" if b.draw(st.booleans()) else "%s, %s") % (e1, e2), ("tuple", (d1, d2)), x1 and x2)
        b.bind("%s[0]" % v.name, d1, x1, ["index"])
        b.bind("%s[1]" % v.name, d2, x2, ["index"])
    elif kind == "dict":
        v = b.bind("{'k1': %s, 'k2': %s}" % (e1, e1), ("dict", ("str",), d1), x1)
        b.bind("%s['k1']" % v.name, d1, x1, ["index"])
    elif kind == "set" and d1[0] in LIT:
        b.bind("{%s}" % e1, ("set", d1), x1)
    else:
        v = b.bind("[(%s, %s)]" % (e1, e2), ("list", ("tuple", (d1, d2))), x1 and x2)
        b.bind("%s[0][1]" % v.name, d2, x2, ["index"])


def p_arith(b):
    """Operator expressions over numbers (precedence, non-associative operators, comparison chains)."""
    b.prog.features.add("arithmetic")
    x, y, z = (b.draw(st.sampled_from(["7", "2", "3", "20", "5"])) for _ in range(3))
    op = b.draw(st.sampled_from(["-", "//", "%", "**", "<<", "+", "*"]))
    first = b.bind("%s %s %s" % (x, op, y), ("int",), True, ["arithmetic"])
    op2 = b.draw(st.sampled_from([op, op, "-", "*", "+"]))
    if op2 in ("//", "%", "**", "<<"):
        op2 = "-"          # keep the second operator total (no division by a computed zero, no huge shifts)
    form = b.draw(st.sampled_from(["right", "left", "both", "unary", "compare", "power"]))
    if form == "right":
        b.bind("%s %s %s" % (z, op2, first.name), ("int",), True, ["arithmetic"])
    elif form == "left":
        b.bind("%s %s %s" % (first.name, op2, z), ("int",), True, ["arithmetic"])
    elif form == "both":
        b.bind("%s %s %s %s %s" % (first.name, op2, z, op, first.name), ("int",), True, ["arithmetic"])
    elif form == "unary":
        b.bind("-%s" % first.name, ("int",), True, ["arithmetic"] + ([] if op in ("+", "-") else ["unary-minus-on-computed-number"]))
    elif form == "power":
        p = b.bind("%s ** %s" % (b.draw(st.sampled_from(["2", "3"])), b.draw(st.sampled_from(["2", "3"]))), ("int",), True, ["arithmetic"])
        b.bind("%s ** 2" % p.name, ("int",), True, ["arithmetic"])
        b.bind("2 ** %s" % p.name, ("int",), True, ["arithmetic"])
    else:
        c = b.bind("%s < %s" % (x, y), ("bool",), True, ["comparison"])
        b.bind("%s == %s" % (c.name, b.draw(st.sampled_from(["True", "1", "0"]))), ("bool",), True, ["comparison"])
        b.bind("not %s" % c.name, ("bool",), True, ["comparison"])


def p_unpack(b):
    b.prog.features.add("unpacking")
    e1, d1, x1 = b.value()
    e2, d2, x2 = b.value()
    e3, d3, x3 = b.value()
    a, c, z = b.fresh("ua"), b.fresh("ub"), b.fresh("uc")
    form = b.draw(st.sampled_from(["tuple", "list", "nested", "chain", "star_tail", "swap"]))
    if form == "tuple":
        b.emit("%s, %s = %s, %s" % (a, c, e1, e2))
        outs = [(a, d1, x1), (c, d2, x2)]
    elif form == "list":
        b.emit("[%s, %s] = [%s, %s]" % (a, c, e1, e2))
        outs = [(a, d1, x1), (c, d2, x2)]
    elif form == "nested":
        b.emit("%s, (%s, %s) = %s, (%s, %s)" % (a, c, z, e1, e2, e3))
        outs = [(a, d1, x1), (c, d2, x2), (z, d3, x3)]
    elif form == "chain":
        b.emit("%s = %s = %s" % (a, c, e1))
        outs = [(a, d1, x1), (c, d1, x1)]
    elif form == "star_tail":
        # only the target BEFORE the starred one is probed (targets at/after a star: known finding, excluded)
        b.emit("%s, *%s = %s, %s, %s" % (a, c, e1, e2, e3))
        outs = [(a, d1, x1)]
        b.prog.features.add("star-unpacking")
    else:
        b.emit("%s, %s = %s, %s" % (a, c, e1, e2))
        b.emit("%s, %s = %s, %s" % (z, b.fresh("ud"), c, a))
        outs = [(z, d2, x2)]
    for n, d, x in outs:
        b.bind(n, d, x, ["unpack"])


def p_function(b):
    b.prog.features.add("functions")
    fname = b.fresh("fun")
    shape = b.draw(st.sampled_from(["ident", "second", "default", "const", "tuple", "varargs", "kwargs", "closure",
                                    "locals", "annotated", "docstring", "recursive", "kwonly", "alldefault",
                                    "posargs_then_rest", "starcall"]))
    e1, d1, x1 = b.value()
    e2, d2, x2 = b.value()
    if shape == "ident":
        b.emit("def %s(first):" % fname, "    return first")
        b.bind("%s(%s)" % (fname, e1), d1, x1, ["call"])
        b.bind("%s(%s)" % (fname, e2), d2, x2, ["call"])
    elif shape == "second":
        b.emit("def %s(first, second):" % fname, "    return second")
        b.bind("%s(%s, %s)" % (fname, e1, e2), d2, x2, ["call"])
        b.bind("%s(second=%s, first=%s)" % (fname, e1, e2), d1, x1, ["call", "kwcall"])
    elif shape == "default":
        dl = b.draw(st.sampled_from(["int", "str"]))
        b.emit("def %s(first, second=%s):" % (fname, LIT[dl][0]), "    return second")
        b.bind("%s(%s)" % (fname, e1), (dl,), True, ["call", "default"])
        b.bind("%s(%s, %s)" % (fname, e1, e2), d2, x2, ["call"])
    elif shape == "alldefault":
        dl = b.draw(st.sampled_from(["int", "str", "float"]))
        b.emit("def %s(first=%s, second=None):" % (fname, LIT[dl][0]), "    return first")
        b.bind("%s()" % fname, (dl,), True, ["call", "default"])
        b.bind("%s(%s)" % (fname, e1), d1, x1, ["call", "default-overridden"])
        b.bind("%s(first=%s)" % (fname, e2), d2, x2, ["call", "kwcall", "default-overridden"])
        b.bind("%s(second=%s)" % (fname, e2), (dl,), True, ["call", "kwcall", "default"])
    elif shape == "posargs_then_rest":
        b.emit("def %s(first, *rest, **more):" % fname, "    return first, rest, more")
        v = b.bind("%s(%s, %s, key=%s)" % (fname, e1, e2, e1), ("tuple", (d1, ("tuple", (d2,)), ("dict", ("str",), d1))), x1 and x2, ["call", "varargs"])
        b.bind("%s[0]" % v.name, d1, x1, ["call", "varargs", "index"])
        b.bind("%s[1][0]" % v.name, d2, x2, ["call", "varargs", "index"])
        b.bind("%s[2]['key']" % v.name, d1, x1, ["call", "kwargs", "index"])
    elif shape == "starcall":
        b.emit("def %s(first, second):" % fname, "    return second")
        b.bind("%s(*(%s, %s))" % (fname, e1, e2), d2, x2, ["call", "star-call"])
        b.bind("%s(**{'first': %s, 'second': %s})" % (fname, e1, e2), d2, x2, ["call", "starstar-call"])
    elif shape == "const":
        b.emit("def %s():" % fname, "    return %s" % e1)
        b.bind("%s()" % fname, d1, x1, ["call"])
    elif shape == "tuple":
        b.emit("def %s(first, second):" % fname, "    return second, first")
        v = b.bind("%s(%s, %s)" % (fname, e1, e2), ("tuple", (d2, d1)), x1 and x2, ["call"])
        b.bind("%s[0]" % v.name, d2, x2, ["call", "index"])
    elif shape == "varargs":
        b.emit("def %s(*rest):" % fname, "    return rest")
        v = b.bind("%s(%s, %s)" % (fname, e1, e1), ("tuple", (d1, d1)), x1, ["call", "varargs"])
        b.bind("%s[0]" % v.name, d1, x1, ["call", "varargs", "index"])
    elif shape == "kwargs":
        b.emit("def %s(**more):" % fname, "    return more")
        v = b.bind("%s(key=%s)" % (fname, e1), ("dict", ("str",), d1), x1, ["call", "kwargs"])
        b.bind("%s['key']" % v.name, d1, x1, ["call", "kwargs", "index"])
    elif shape == "closure":
        inner = b.fresh("inner")
        b.emit("def %s(first):" % fname, "    def %s():" % inner, "        return first", "    return %s" % inner)
        v = b.bind("%s(%s)" % (fname, e1), ("fn", inner), True, ["closure"])
        b.bind("%s()" % v.name, d1, x1, ["closure", "call"])
    elif shape == "locals":
        t1, t2 = b.fresh("loc"), b.fresh("loc")
        b.emit("def %s(first, second):" % fname, "    %s = (first, second)" % t1, "    %s = %s[1]" % (t2, t1),
               "    return %s" % t2)
        b.bind("%s(%s, %s)" % (fname, e1, e2), d2, x2, ["call", "locals"])
    elif shape == "annotated":
        ci = b.some_class()
        if ci is None:
            return p_literals(b)
        b.emit("def %s(first: %s) -> %s:" % (fname, b.qual(ci.name), b.qual(ci.name)), "    return first")
        b.bind("%s(%s)" % (fname, b.construct(("inst", ci.name))), ("inst", ci.name), True, ["call", "annotation"])
        b.prog.features.add("annotations")
    elif shape == "docstring":
        b.emit("def %s(first):" % fname, '    """', "    :param first: a value", "    :rtype: int", '    """',
               "    return int(first)")
        b.bind("%s(%s)" % (fname, LIT["int"][1]), ("int",), True, ["call", "docstring-type"])
        b.prog.features.add("docstring-types")
    elif shape == "recursive":
        form = b.draw(st.sampled_from(["literal-le", "literal-not", "len", "slice"]))
        if form == "literal-le":
            b.emit("def %s(depth, first):" % fname, "    if depth <= 0:", "        return first",
                   "    return %s(depth - 1, first)" % fname)
            b.bind("%s(2, %s)" % (fname, e1), d1, x1, ["call", "recursion-literal-guard"])
        elif form == "literal-not":
            b.emit("def %s(depth, first):" % fname, "    if not depth:", "        return first",
                   "    return %s(depth - 1, first)" % fname)
            b.bind("%s(2, %s)" % (fname, e1), d1, x1, ["call", "recursion-literal-guard"])
        elif form == "len":
            b.emit("def %s(depth, first):" % fname, "    if depth < 1:", "        return first",
                   "    return %s(depth - 1, first)" % fname)
            b.bind("%s(len('ab'), %s)" % (fname, e1), d1, x1, ["call", "recursion"])
        else:
            b.emit("def %s(todo, first):" % fname, "    if not todo:", "        return first",
                   "    return %s(todo[1:], first)" % fname)
            b.bind("%s([1, 1], %s)" % (fname, e1), d1, x1, ["call", "recursion"])
    else:
        b.emit("def %s(first, *, named):" % fname, "    return named")
        b.bind("%s(%s, named=%s)" % (fname, e1, e2), d2, x2, ["call", "kwonly"])
    b.prog.funcs[fname] = (b.mod.name,)
    b.bind(fname, ("fn", fname), True, ["function-object"])


def p_lambda(b):
    b.prog.features.add("lambdas")
    e1, d1, x1 = b.value()
    e2, d2, x2 = b.value()
    lam = b.fresh("lam")
    form = b.draw(st.sampled_from(["ident", "const", "default", "pair"]))
    if form == "ident":
        b.emit("%s = lambda item: item" % lam)
        b.bind("%s(%s)" % (lam, e1), d1, x1, ["lambda"])
    elif form == "const":
        b.emit("%s = lambda: %s" % (lam, e1))
        b.bind("%s()" % lam, d1, x1, ["lambda"])
    elif form == "default":
        b.emit("%s = lambda item, other=%s: other" % (lam, e2))
        b.bind("%s(%s)" % (lam, e1), d2, x2, ["lambda", "default"])
    else:
        b.emit("%s = lambda item, other: (other, item)" % lam)
        v = b.bind("%s(%s, %s)" % (lam, e1, e2), ("tuple", (d2, d1)), x1 and x2, ["lambda"])
        b.bind("%s[1]" % v.name, d1, x1, ["lambda", "index"])


def _some_class(b, pred=lambda c: True):
    cs = [c for c in b.prog.classes.values() if pred(c) and (c.module == b.mod.name or c.name in b.imports)
          and not any(pd is None for _, pd in (c.init or []))]
    if not cs:
        return None
    return b.draw(st.sampled_from(sorted(cs, key=lambda c: c.name)))


Builder.some_class = _some_class


def p_class(b):
    b.prog.features.add("classes")
    cname = b.fresh("Cls").capitalize().replace("_", "")
    cname = "K" + cname
    ci = ClassInfo(cname, b.mod.name)
    bases = []
    if b.draw(st.integers(0, 2)) == 0:
        base = b.some_class(lambda c: c.module == b.mod.name or True)
        if base is not None:
            bases.append(base.name)
            if b.draw(st.integers(0, 3)) == 0:
                other = b.some_class(lambda c: c.name != base.name and base.name not in [x.name for x in c.mro(b.prog.classes)]
                                     and c.name not in [x.name for x in base.mro(b.prog.classes)] and not b.init_of(c) and not b.init_of(base))
                if other is not None:
                    bases.append(other.name)
                    b.prog.features.add("multiple-inheritance")
            b.prog.features.add("inheritance")
    ci.bases = bases
    b.emit("class %s%s:" % (cname, "(%s)" % ", ".join(b.qual(x) for x in bases) if bases else ""))
    ci.line = len(b.mod.lines)
    b.prog.classes[cname] = ci
    body = []
    # class attribute
    ca = b.fresh("cattr")
    k = b.draw(st.sampled_from(["int", "str", "float"]))
    body.append("    %s = %s" % (ca, LIT[k][0]))
    ci.attrs[ca] = (k,)
    inherited_init = b.init_of(ci) if bases else []
    # __init__
    own_init = b.draw(st.booleans()) or not bases
    if own_init:
        nparams = b.draw(st.integers(0, 2))
        params = []
        for _ in range(nparams):
            pk = b.draw(st.sampled_from(["int", "str", "inst", "list"]))
            if pk == "inst":
                other = b.some_class(lambda c: c.name != cname and not b.init_of(c))
                pd = ("inst", other.name) if other is not None else ("int",)
            elif pk == "list":
                pd = ("list", ("int",))
            else:
                pd = (pk,)
            params.append((b.fresh("par"), pd))
        if bases and inherited_init:
            # extend the inherited constructor: pass its parameters through super()
            allp = list(inherited_init) + params
            body.append("    def __init__(self, %s):" % ", ".join(p for p, _ in allp))
            body.append("        super().__init__(%s)" % ", ".join(p for p, _ in inherited_init))
            b.prog.features.add("super")
        else:
            allp = params
            body.append("    def __init__(self%s):" % "".join(", " + p for p, _ in allp))
            if bases:
                body.append("        super().__init__()")
        for p, pd in params:
            an = b.fresh("iattr")
            body.append("        self.%s = %s" % (an, p))
            ci.attrs[an] = pd
        if not params:
            an = b.fresh("iattr")
            body.append("        self.%s = %s" % (an, LIT["str"][1]))
            ci.attrs[an] = ("str",)
        ci.init = allp
        ci.methods["__init__"] = ("method", allp, ("none",))
    else:
        ci.init = None
    # methods
    attrs_now = dict(b.all_attrs(cname))
    for _ in range(b.draw(st.integers(1, 3))):
        mk = b.draw(st.sampled_from(["getter", "ident", "const", "property", "static", "classm", "chain"]))
        mname = b.fresh("meth")
        if mk == "getter" and attrs_now:
            an = b.draw(st.sampled_from(sorted(attrs_now)))
            body += ["    def %s(self):" % mname, "        return self.%s" % an]
            ci.methods[mname] = ("method", [], attrs_now[an])
        elif mk == "ident":
            body += ["    def %s(self, item):" % mname, "        return item"]
            ci.methods[mname] = ("method", [("item", None)], ("param", 0))
        elif mk == "property" and attrs_now:
            an = b.draw(st.sampled_from(sorted(attrs_now)))
            body += ["    @property", "    def %s(self):" % mname, "        return self.%s" % an]
            ci.methods[mname] = ("property", [], attrs_now[an])
            b.prog.features.add("property")
        elif mk == "static":
            kk = b.draw(st.sampled_from(["int", "str"]))
            body += ["    @staticmethod", "    def %s(item):" % mname, "        return (item, %s)" % LIT[kk][0]]
            ci.methods[mname] = ("static", [("item", None)], ("tuple-param0", (kk,)))
            b.prog.features.add("staticmethod")
        elif mk == "classm" and not b.init_of(ci):
            body += ["    @classmethod", "    def %s(cls):" % mname, "        return cls()"]
            ci.methods[mname] = ("class", [], ("inst-of-receiver",))
            b.prog.features.add("classmethod")
        elif mk == "chain":
            body += ["    def %s(self):" % mname, "        return self"]
            ci.methods[mname] = ("method", [], ("self",))
        else:
            kk = b.draw(st.sampled_from(["int", "str", "float"]))
            body += ["    def %s(self):" % mname, "        return %s" % LIT[kk][0]]
            ci.methods[mname] = ("method", [], (kk,))
    # protocols
    for proto in b.draw(st.lists(st.sampled_from(["__call__", "__getitem__", "__iter__", "__enter__", "__len__"]),
                                 max_size=2, unique=True)):
        kk = b.draw(st.sampled_from(["int", "str"]))
        if proto == "__call__":
            body += ["    def __call__(self):", "        return %s" % LIT[kk][0]]
            ci.protocols[proto] = (kk,)
        elif proto == "__getitem__":
            body += ["    def __getitem__(self, key):", "        return %s" % LIT[kk][0]]
            ci.protocols[proto] = (kk,)
        elif proto == "__iter__":
            body += ["    def __iter__(self):", "        yield %s" % LIT[kk][0], "        yield %s" % LIT[kk][1]]
            ci.protocols[proto] = (kk,)
        elif proto == "__enter__":
            body += ["    def __enter__(self):", "        return self", "    def __exit__(self, *exc):", "        return False"]
            ci.protocols[proto] = ("self",)
        else:
            body += ["    def __len__(self):", "        return 3"]
        ci.methods[proto] = ("method", [], None)
        b.prog.features.add("magic-methods")
    b.emit(*body)
    p_use_class(b, ci)


def p_multi_inherit(b):
    """class D(B, C) where C(A, E): attributes/methods from every base must be reachable (MRO)."""
    b.prog.features.update(["classes", "inheritance", "multiple-inheritance"])
    names = {}
    for role in "ABE":
        cname = "K" + b.fresh("Mix" + role).replace("_", "")
        ci = ClassInfo(cname, b.mod.name)
        k = b.draw(st.sampled_from(["int", "str", "float"]))
        an, mn = b.fresh("cattr"), b.fresh("meth")
        b.emit("class %s:" % cname, "    %s = %s" % (an, LIT[k][0]), "    def %s(self):" % mn, "        return %s" % LIT[k][1 % len(LIT[k])])
        ci.attrs[an] = (k,)
        ci.methods[mn] = ("method", [], (k,))
        ci.init = None
        b.prog.classes[cname] = ci
        names[role] = ci
    order_c = b.draw(st.permutations(["A", "E"]))
    cc = ClassInfo("K" + b.fresh("MixC").replace("_", ""), b.mod.name)
    cc.bases = [names[r].name for r in order_c]
    cc.init = None
    an = b.fresh("cattr")
    b.emit("class %s(%s):" % (cc.name, ", ".join(cc.bases)), "    %s = 1" % an)
    cc.attrs[an] = ("int",)
    b.prog.classes[cc.name] = cc
    dd = ClassInfo("K" + b.fresh("MixD").replace("_", ""), b.mod.name)
    dd.bases = b.draw(st.permutations([names["B"].name, cc.name]))
    dd.init = None
    b.emit("class %s(%s):" % (dd.name, ", ".join(dd.bases)), "    pass")
    b.prog.classes[dd.name] = dd
    inst = b.bind("%s()" % dd.name, ("inst", dd.name), True, ["instance", "multiple-inheritance"])
    for an, ad in sorted(b.all_attrs(dd.name).items()):
        b.bind("%s.%s" % (inst.name, an), ad, True, ["attribute", "multiple-inheritance"])
    for mn, (kind, params, ret) in sorted(b.all_methods(dd.name).items()):
        b.bind("%s.%s()" % (inst.name, mn), ret, True, ["method-call", "multiple-inheritance"])


def p_override(b):
    """A method (and a class attribute) re-defined in a subclass, used through base, subclass and a value that may
    be either (the usage that links both definitions)."""
    b.prog.features.update(["classes", "inheritance", "method-override"])
    # variant: the base class lives in the imported helper module and only the override is written here
    imported = [c for c in b.prog.classes.values() if c.module != b.mod.name and c.name in b.imports and not b.init_of(c)
                and any(k == "method" and not ps and ret and ret[0] in LIT and not mn.startswith("__") for mn, (k, ps, ret) in c.methods.items())]
    if imported and b.draw(st.booleans()):
        bci = b.draw(st.sampled_from(sorted(imported, key=lambda c: c.name)))
        meth, ret = sorted((mn, r) for mn, (k, ps, r) in bci.methods.items() if k == "method" and not ps and r and r[0] in LIT and not mn.startswith("__"))[0]
        base_q, sub = b.qual(bci.name), "K" + b.fresh("Square").replace("_", "")
        sci = ClassInfo(sub, b.mod.name)
        sci.bases, sci.init = [bci.name], None
        sci.methods[meth] = ("method", [], ret)
        b.emit("class %s(%s):" % (sub, base_q), "    def %s(self):" % meth, "        return %s" % LIT[ret[0]][-1])
        b.prog.classes[sub] = sci
        b.prog.focus = getattr(b.prog, "focus", []) + [meth]
        b.prog.features.add("override-of-imported-base")
        link = b.fresh("un")
        fn1, fn2 = b.fresh("fun"), b.fresh("fun")
        b.emit("def %s():" % fn1, "    return %s().%s()" % (sub, meth),
               "def %s(flag):" % fn2, "    if flag:", "        %s = %s()" % (link, base_q), "    else:", "        %s = %s()" % (link, sub),
               "    return %s.%s()" % (link, meth))
        b.bind("%s()" % fn1, ret, True, ["method-call", "override"])
        b.bind("%s(True)" % fn2, ret, False, ["method-call", "override"])
        b.bind("%s(False)" % fn2, ret, False, ["method-call", "override"])
        return
    base, sub = "K" + b.fresh("Shape").replace("_", ""), "K" + b.fresh("Square").replace("_", "")
    meth, attr = b.fresh("meth"), b.fresh("cattr")
    for cn, bases, ret, val in ((base, "", LIT["str"][1], "1"), (sub, "(%s)" % base, LIT["str"][2], "2")):
        ci = ClassInfo(cn, b.mod.name)
        ci.bases = [base] if bases else []
        ci.init = None
        ci.attrs[attr] = ("int",)
        ci.methods[meth] = ("method", [], ("str",))
        b.emit("class %s%s:" % (cn, bases), "    %s = %s" % (attr, val), "    def %s(self):" % meth, "        return %s" % ret)
        b.prog.classes[cn] = ci
    b.prog.focus = getattr(b.prog, "focus", []) + [meth, attr]
    order = b.draw(st.sampled_from(["sub-first", "sub-first", "base-first", "link-first"]))
    link = b.fresh("un")
    uses = {
        "sub": lambda: b.bind("%s().%s()" % (sub, meth), ("str",), True, ["method-call", "override"]),
        "base": lambda: b.bind("%s().%s()" % (base, meth), ("str",), True, ["method-call", "override"]),
        "link": lambda: (b.emit("%s = %s() if len('ab') == 2 else %s()" % (link, base, sub)),
                         b.bind("%s.%s()" % (link, meth), ("str",), False, ["method-call", "override"]),
                         b.bind("%s.%s" % (link, attr), ("int",), False, ["attribute", "override"])),
    }
    seq = {"sub-first": ["sub", "link", "base"], "base-first": ["base", "sub", "link"], "link-first": ["link", "sub", "base"]}[order]
    for k in seq:
        uses[k]()


def duck_classes(cb):
    """Two unrelated classes with a method of the same name (only a duck-typed use ties the two definitions together)."""
    cb.prog.features.update(["classes", "duck-typed-methods"])
    one, two = "K" + cb.fresh("Circle").replace("_", ""), "K" + cb.fresh("Box").replace("_", "")
    meth = cb.fresh("area")
    for cn, ret in ((one, LIT["int"][0]), (two, LIT["int"][1])):
        ci = ClassInfo(cn, cb.mod.name)
        ci.bases, ci.init = [], None
        ci.methods[meth] = ("method", [], ("int",))
        cb.emit("class %s:" % cn, "    def %s(self):" % meth, "        return %s" % ret)
        cb.prog.classes[cn] = ci
    cb.prog.focus = getattr(cb.prog, "focus", []) + [meth]
    return one, two, meth


def duck_uses(b, one, two, meth):
    """k uses through the first class only, some through the second only, and the use that may be either."""
    first, second = (one, two) if b.draw(st.booleans()) else (two, one)
    x, y = b.fresh("duck"), b.fresh("duck")
    b.emit("%s = %s()" % (x, b.qual(first)))
    for _ in range(b.draw(st.integers(0, 3))):
        b.bind("%s.%s()" % (x, meth), ("int",), True, ["method-call", "duck"])
    b.emit("%s = %s()" % (y, b.qual(second)))
    for _ in range(b.draw(st.integers(0, 2))):
        b.bind("%s.%s()" % (y, meth), ("int",), True, ["method-call", "duck"])
    link = b.fresh("un")
    if b.draw(st.booleans()):
        b.emit("%s = %s if len('ab') == 2 else %s" % (link, x, y))
        b.bind("%s.%s()" % (link, meth), ("int",), False, ["method-call", "duck"])
    else:
        acc = b.fresh("acc")
        b.emit("%s = []" % acc, "for %s in [%s, %s]:" % (link, x, y), "    %s.append(%s.%s())" % (acc, link, meth))
        b.bind("len(%s)" % acc, ("int",), True, ["duck"])
    for _ in range(b.draw(st.integers(0, 1))):
        b.bind("%s.%s()" % (x, meth), ("int",), True, ["method-call", "duck"])


def p_duck(b):
    duck_uses(b, *duck_classes(b))


def p_use_class(b, ci=None):
    ci = ci or b.some_class()
    if ci is None:
        return p_class(b)
    cname = ci.name
    inst = b.bind(b.construct(("inst", cname)), ("inst", cname), True, ["instance"])
    b.bind(b.qual(cname), ("cls", cname), True, ["class-object"])
    for an, ad in sorted(b.all_attrs(cname).items()):
        if b.draw(st.integers(0, 2)) > 0:
            b.bind("%s.%s" % (inst.name, an), ad, True, ["attribute"])
    for mn, (kind, params, ret) in sorted(b.all_methods(cname).items()):
        if mn.startswith("__") or (kind != "class" and b.draw(st.integers(0, 3)) == 0):
            continue
        recv = inst.name
        if kind == "property":
            b.bind("%s.%s" % (recv, mn), ret, True, ["property"])
            continue
        if kind == "static" and b.draw(st.booleans()):
            recv = b.qual(cname)
        if kind == "class":
            inherited = mn not in ci.methods
            if b.init_of(ci):
                continue        # cls() would need arguments
            b.bind("%s.%s()" % (b.qual(cname), mn), ("inst", cname), True, ["classmethod"] + (["inherited-classmethod"] if inherited else []))
            b.bind("%s.%s()" % (inst.name, mn), ("inst", cname), True, ["classmethod"] + (["inherited-classmethod"] if inherited else []))
            continue
        args = []
        rd, rx = ret, True
        if params:
            e, d, x = b.value()
            args.append(e)
            if ret == ("param", 0):
                rd, rx = d, x
            elif ret and ret[0] == "tuple-param0":
                rd, rx = ("tuple", (d, ret[1])), x
        if ret == ("self",):
            rd = ("inst", cname)
        if rd is None:
            continue
        b.bind("%s.%s(%s)" % (recv, mn, ", ".join(args)), rd, rx, ["method-call"] + (["staticmethod"] if kind == "static" else []))
    protos = b.all_protocols(cname)
    if "__call__" in protos:
        b.bind("%s()" % inst.name, protos["__call__"], True, ["__call__"])
    if "__getitem__" in protos:
        b.bind("%s[0]" % inst.name, protos["__getitem__"], True, ["__getitem__"])
    if "__iter__" in protos:
        it = b.fresh("it")
        b.emit("for %s in %s:" % (it, inst.name), "    pass")
        b.bind(it, protos["__iter__"], True, ["__iter__", "for"])
        b.bind("list(%s)" % inst.name, ("list", protos["__iter__"]), True, ["__iter__"])
    if "__enter__" in protos:
        cm = b.fresh("cm")
        b.emit("with %s as %s:" % (inst.name, cm), "    pass")
        b.bind(cm, ("inst", cname), True, ["__enter__", "with"])
        b.prog.features.add("with")


def p_decorator(b):
    b.prog.features.add("decorators")
    dname, fname = b.fresh("deco"), b.fresh("dfun")
    e1, d1, x1 = b.value()
    form = b.draw(st.sampled_from(["passthrough", "wraps", "plainwrapper", "stacked"]))
    if form == "stacked":
        # two decorators that each wrap the result in their own class: the order of application is observable
        b.prog.features.add("stacked-decorators")
        k1, k2 = "K" + b.fresh("Box").replace("_", ""), "K" + b.fresh("Tag").replace("_", "")
        d2 = b.fresh("deco")
        for kn in (k1, k2):
            ci = ClassInfo(kn, b.mod.name)
            ci.init = [("inner_value", None)]
            ci.attrs["inner_value"] = None
            ci.methods["__init__"] = ("method", [("inner_value", None)], ("none",))
            b.prog.classes[kn] = ci
            b.emit("class %s:" % kn, "    def __init__(self, inner_value):", "        self.inner_value = inner_value")
        for dn, kn in ((dname, k1), (d2, k2)):
            b.emit("def %s(func):" % dn, "    def wrapper(*args):", "        return %s(func(*args))" % kn, "    return wrapper")
        b.emit("@%s" % d2, "@%s" % dname, "def %s(first):" % fname, "    return first")
        v = b.bind("%s(%s)" % (fname, e1), ("inst", k2), True, ["decorated-call", "stacked"])
        v2 = b.bind("%s.inner_value" % v.name, ("inst", k1), True, ["decorated-call", "stacked", "attribute"])
        b.bind("%s.inner_value" % v2.name, d1, x1, ["decorated-call", "stacked", "attribute"])
        return
    if form == "passthrough":
        b.emit("def %s(func):" % dname, "    return func")
    elif form == "wraps":
        if "import functools" not in b.mod.lines:
            b.mod.lines.insert(0, "import functools")
            _shift(b.mod, 1)
        b.emit("def %s(func):" % dname, "    @functools.wraps(func)", "    def wrapper(*args, **kwargs):",
               "        return func(*args, **kwargs)", "    return wrapper")
        b.prog.features.add("functools.wraps")
    else:
        b.emit("def %s(func):" % dname, "    def wrapper(*args, **kwargs):", "        return func(*args, **kwargs)",
               "    return wrapper")
    b.emit("@%s" % dname, "def %s(first):" % fname, "    return first")
    b.bind("%s(%s)" % (fname, e1), d1, x1, ["decorated-call", form])


def _shift(mod, k):
    for p in mod.probes:
        p["line"] += k


def p_generator(b):
    b.prog.features.add("generators")
    g = b.fresh("gen")
    e1, d1, x1 = b.value()
    form = b.draw(st.sampled_from(["yield", "yield_from", "genexp"]))
    if form == "yield":
        b.emit("def %s():" % g, "    yield %s" % e1, "    yield %s" % e1)
        call = "%s()" % g
    elif form == "yield_from":
        g0 = b.fresh("gen")
        b.emit("def %s():" % g0, "    yield %s" % e1, "def %s():" % g, "    yield from %s()" % g0)
        call = "%s()" % g
    else:
        b.emit("%s = (item for item in [%s, %s])" % (g, e1, e1))
        call = None
    if call:
        b.bind("next(%s)" % call, d1, x1, ["generator", "next"])
        b.bind("list(%s)" % call, ("list", d1), x1, ["generator"])
        b.bind("[item for item in %s][0]" % call, d1, x1, ["generator", "comprehension"])
        it = b.fresh("it")
        b.emit("for %s in %s:" % (it, call), "    pass")
        b.bind(it, d1, x1, ["generator", "for"])
    else:
        b.bind("list(%s)" % g, ("list", d1), x1, ["genexp"])


def p_comprehension(b):
    b.prog.features.add("comprehensions")
    e1, d1, x1 = b.value()
    e2, d2, x2 = b.value()
    form = b.draw(st.sampled_from(["list", "dict", "set", "nested", "cond", "tuplevar"]))
    if form == "list":
        v = b.bind("[item for item in [%s, %s]]" % (e1, e1), ("list", d1), x1, ["comprehension"])
        b.bind("%s[0]" % v.name, d1, x1, ["comprehension", "index"])
    elif form == "dict":
        v = b.bind("{key: %s for key in ('a', 'b')}" % e1, ("dict", ("str",), d1), x1, ["comprehension"])
        b.bind("%s['a']" % v.name, d1, x1, ["comprehension", "index"])
    elif form == "set" and d1[0] in LIT:
        b.bind("{item for item in [%s]}" % e1, ("set", d1), x1, ["comprehension"])
    elif form == "nested":
        v = b.bind("[[inner for inner in [outer]] for outer in [%s]]" % e1, ("list", ("list", d1)), x1, ["comprehension"])
        b.bind("%s[0][0]" % v.name, d1, x1, ["comprehension", "index"])
    elif form == "cond":
        v = b.bind("[item for item in [%s] if item is not None or True]" % e1, ("list", d1), x1, ["comprehension"])
        b.bind("%s[0]" % v.name, d1, x1, ["comprehension", "index"])
    else:
        v = b.bind("[(left, right) for left, right in [(%s, %s)]]" % (e1, e2), ("list", ("tuple", (d1, d2))), x1 and x2, ["comprehension"])
        b.bind("%s[0][1]" % v.name, d2, x2, ["comprehension", "index"])


def p_flow(b):
    e1, d1, x1 = b.value()
    e2, d2, x2 = b.value()
    form = b.draw(st.sampled_from(["for", "try", "isinstance", "ternary", "ifelse", "while", "with_open", "elif_chain"]))
    t = b.fresh("fv")
    if form == "elif_chain":
        # a three-branch chain inside a loop over values of different classes: the first test holds for some iterations
        # only, the second for none, and the iteration that runs last takes the first branch
        b.prog.features.add("elif-chain")
        it = b.fresh("it")
        ci = b.some_class()
        if ci is not None and b.draw(st.booleans()):
            seq, test1 = "(%s, %s)" % (LIT["str"][0], b.construct(("inst", ci.name))), "isinstance(%s, %s)" % (it, b.qual(ci.name))
        else:
            seq, test1 = "(%s, %s)" % (LIT["str"][0], LIT["int"][0]), "isinstance(%s, int)" % it
        b.emit("for %s in %s:" % (it, seq),
               "    if %s:" % test1, "        %s = %s" % (t, e1),
               "    elif isinstance(%s, float):" % it, "        %s = 0.5" % t,
               "    else:", "        %s = %s" % (t, e2))
        b.bind(t, d1, False, ["isinstance", "elif-chain"])
    elif form == "for":
        b.prog.features.add("for")
        b.emit("for %s in [%s, %s]:" % (t, e1, e1), "    pass")
        b.bind(t, d1, x1, ["for"])
    elif form == "try":
        b.prog.features.add("try")
        exc = b.draw(st.sampled_from(["ValueError", "KeyError", "TypeError"]))
        b.emit("try:", "    raise %s('boom')" % exc, "except %s as %s:" % (exc, t), "    %s_keep = %s" % (t, t))
        b.bind("%s_keep" % t, ("exc", exc), True, ["try"])
    elif form == "isinstance":
        ci = b.some_class()
        if ci is None:
            return p_literals(b)
        b.prog.features.add("isinstance")
        u = b.fresh("un")
        b.emit("%s = %s if len('ab') == 2 else %s" % (u, b.construct(("inst", ci.name)), LIT["int"][0]))
        b.emit("if isinstance(%s, %s):" % (u, b.qual(ci.name)), "    %s = %s" % (t, u), "else:", "    %s = %s" % (t, b.construct(("inst", ci.name))))
        b.bind(t, ("inst", ci.name), False, ["isinstance"])
    elif form == "ternary":
        b.prog.features.add("ternary")
        b.bind("%s if len('ab') == 2 else %s" % (e1, e2), d1, False, ["ternary"])
    elif form == "ifelse":
        b.prog.features.add("if")
        b.emit("if len('abc') == 3:", "    %s = %s" % (t, e1), "else:", "    %s = %s" % (t, e2))
        b.bind(t, d1, False, ["if"])
    elif form == "while":
        b.prog.features.add("while")
        c = b.fresh("cnt")
        b.emit("%s = 0" % c, "while %s < 2:" % c, "    %s = %s" % (t, e1), "    %s += 1" % c)
        b.bind(t, d1, x1, ["while"])
    else:
        ci = b.some_class(lambda c: "__enter__" in b.all_protocols(c.name))
        if ci is None:
            return p_literals(b)
        b.prog.features.add("with")
        b.emit("with %s as %s:" % (b.construct(("inst", ci.name)), t), "    %s_in = %s" % (t, t))
        b.bind("%s_in" % t, ("inst", ci.name), True, ["with"])


def p_dataflow(b):
    """An imperative function: locals that are assigned, conditionally or self-referentially re-assigned (if / loop / try /
    augmented) and read again; called with several arguments so that every branch runs."""
    b.prog.features.update(["functions", "dataflow-function"])
    fn, n = b.fresh("fun"), b.fresh("par")
    a, c, d = b.fresh("loc"), b.fresh("loc"), b.fresh("loc")
    body = ["%s = %s + %s" % (a, n, b.draw(st.sampled_from(["1", "2", "10"]))),
            b.draw(st.sampled_from(["%s = %s * 2" % (c, a), "%s = %s - 1" % (c, n)]))]
    i = b.fresh("it")
    variants = {
        "cond": ["if %s > 3:" % n, "    %s = 0" % a],
        "self": ["%s = %s + %s" % (a, a, c)],
        "loop": ["for %s in range(%s):" % (i, n), "    %s = %s + %s" % (a, a, i)],
        "try": ["try:", "    %s = %s // %s" % (a, a, n), "except ZeroDivisionError:", "    %s = -1" % c],
        "while": ["while %s > 10:" % a, "    %s = %s - 7" % (a, a)],
        "aug": ["%s += %s" % (a, c)],
        "cond_other": ["if %s == 0:" % n, "    %s = %s" % (c, a)],
    }
    for k in b.draw(st.lists(st.sampled_from(sorted(variants)), min_size=1, max_size=3, unique=True)):
        body += variants[k]
        b.prog.features.add("dataflow:" + k)
    body += ["%s = %s + %s" % (d, a, c), b.draw(st.sampled_from(["return %s" % d, "return %s + %s" % (d, a)]))]
    b.emit("def %s(%s):" % (fn, n), *["    " + l for l in body])
    for arg in b.draw(st.lists(st.sampled_from(["0", "1", "4", "10"]), min_size=2, max_size=3, unique=True)):
        b.bind("%s(%s)" % (fn, arg), ("int",), True, ["function-call", "dataflow"])


def p_varlen(b):
    """A function that returns sequences of different lengths on different paths; the result is iterated and unpacked
    (positions that exist only in the longer alternative).  The flag is computed, so that
    neither path can be ruled out statically."""
    b.prog.features.update(["functions", "varying-length-returns"])
    fn, flag = b.fresh("fun"), b.fresh("par")
    kinds = b.draw(st.permutations(["int", "str", "float"]))
    elems = [LIT[k][0] for k in kinds]
    br = b.draw(st.sampled_from(["[", "("]))
    close = {"[": "]", "(": ",)"}[br]
    short = b.draw(st.sampled_from([br + elems[0] + close, "[]" if br == "[" else "()"]))
    b.emit("def %s(%s):" % (fn, flag), "    if %s:" % flag, "        return %s" % short,
           "    return %s%s%s" % (br, ", ".join(elems), close))
    it = b.fresh("it")
    b.emit("for %s in %s(len('ab') == 3):" % (it, fn), "    pass")
    b.bind(it, (kinds[2],), False, ["for", "varlen"])
    u1, u2, u3 = b.fresh("ua"), b.fresh("ub"), b.fresh("uc")
    b.emit("%s, %s, %s = %s(len('ab') == 3)" % (u1, u2, u3, fn))
    b.bind(u2, (kinds[1],), False, ["unpack", "varlen"])
    b.bind(u3, (kinds[2],), False, ["unpack", "varlen"])
    if b.draw(st.booleans()):
        b.bind("[%s for %s in %s(len('ab') == 3)][-1]" % (it, it, fn), (kinds[2],), False, ["comprehension", "varlen"])
    else:
        b.bind("list(%s(len('ab') == 3))[2]" % fn, (kinds[2],), False, ["subscript", "varlen"])


PRODUCTIONS = [p_literals, p_arith, p_unpack, p_function, p_function, p_function, p_lambda, p_class, p_class, p_use_class,
               p_decorator, p_generator, p_comprehension, p_flow, p_flow, p_multi_inherit, p_override, p_duck, p_dataflow, p_varlen]


@st.composite
def programs(draw, max_blocks=9, multi=None):
    prog = Program()
    pool = WORDS
    if draw(st.integers(0, 9)) == 0:
        pool = ["ünï", "naïve", "größe", "señor"] + WORDS[:8]
        prog.features.add("non-ascii-identifiers")
    multi = draw(st.booleans()) if multi is None else multi
    imports = {}
    if multi:
        prog.features.add("multi-module")
        helper = Module(draw(st.sampled_from(["helper_mod", "shapes_lib", "util_pkg_mod"])))
        prog.modules.append(helper)
        hb = Builder(draw, prog, helper, pool)
        hb.imports = {}
        for _ in range(draw(st.integers(1, 3))):
            p_class(hb)
        duck = duck_classes(hb) if draw(st.integers(0, 3)) == 0 else None
        hf = hb.fresh("hfun")
        helper.lines += ["def %s(first):" % hf, "    return first"]
        helper.observe = []
    main = Module("main_mod")
    prog.modules.append(main)
    b = Builder(draw, prog, main, pool)
    b.imports = imports
    if multi:
        style = draw(st.sampled_from(["import", "from", "alias", "from_alias"]))
        h = prog.modules[0]
        hclasses = [c for c in prog.classes.values() if c.module == h.name]
        if style == "import":
            main.lines.append("import %s" % h.name)
            for c in hclasses:
                imports[c.name] = "%s.%s" % (h.name, c.name)
            hfq = "%s.%s" % (h.name, hf)
        elif style == "alias":
            main.lines.append("import %s as hlp" % h.name)
            for c in hclasses:
                imports[c.name] = "hlp.%s" % c.name
            hfq = "hlp.%s" % hf
        elif style == "from":
            main.lines.append("from %s import %s" % (h.name, ", ".join([c.name for c in hclasses] + [hf])))
            for c in hclasses:
                imports[c.name] = c.name
            hfq = hf
        else:
            main.lines.append("from %s import %s" % (h.name, ", ".join(["%s as Imp%s" % (c.name, c.name) for c in hclasses] + [hf])))
            for c in hclasses:
                imports[c.name] = "Imp" + c.name
            hfq = hf
        e, d, x = b.scalar()
        b.bind("%s(%s)" % (hfq, e), d, x, ["imported-function"])
        if draw(st.booleans()):
            e2, d2, x2 = b.scalar()
            b.bind("%s(first=%s)" % (hfq, e2), d2, x2, ["imported-function", "kwcall-other-module"])
            prog.features.add("kwcall-other-module")
        for c in hclasses:
            if draw(st.booleans()):
                p_use_class(b, c)
        if duck:
            duck_uses(b, *duck)
    for _ in range(draw(st.integers(3, max_blocks))):
        draw(st.sampled_from(PRODUCTIONS))(b)
    return prog
