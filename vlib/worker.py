"""Worker process entry: `python -m vlib.worker shard PID S N OUT` or `... replay PID CASEFILE OUT`."""
import os
import sys
import json
import importlib
import traceback


def main():
    mode, pid = sys.argv[1], sys.argv[2]
    from vlib import boot, core, runner
    boot.install_arena_shim()
    mod = importlib.import_module("vlib.props." + pid.lower())
    seed = int(os.environ.get("VERIF_SEED", "1"))
    tier = os.environ.get("VERIF_TIER", "quick")
    known = runner.load_known(pid)
    known_sigs = [f["sig"] for f in known if f.get("status") == "known"]
    budget = getattr(mod, "BUDGET", {"quick": 150, "thorough": 1800})[tier]
    if mode == "shard":
        shard, nshards, out = int(sys.argv[3]), int(sys.argv[4]), sys.argv[5]
        ctx = core.Ctx(pid, seed, shard, nshards, tier, known_sigs, budget)
        try:
            mod.shard(ctx)
        except Exception:
            ctx.harness_errors.append("shard %d crashed: %s" % (shard, traceback.format_exc()[-3000:]))
        tmp = out + ".tmp"
        with open(tmp, "w") as f:
            json.dump(ctx.result(), f, default=str)
        os.replace(tmp, out)
    elif mode == "replay":
        casefile, out = sys.argv[3], sys.argv[4]
        ctx = core.Ctx(pid, seed, 0, 1, tier, (), budget)   # known sigs are filtered by the runner
        ctx.replaying = True
        case = json.load(open(casefile))["case"]
        try:
            mod.replay(ctx, case)
        except core.Inconclusive:
            pass
        tmp = out + ".tmp"
        with open(tmp, "w") as f:
            json.dump({"violations": ctx.violations}, f, default=str)
        os.replace(tmp, out)
    sys.stdout.flush()
    os._exit(0)   # do not wait for stray threads / helper processes


if __name__ == "__main__":
    main()
