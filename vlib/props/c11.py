"""C11 — signatures and docstrings mirror the definition; index locates the argument."""
import re
import inspect
import itertools
from hypothesis import strategies as st
from .. import boot, core, api

ID = "C11"
LEVEL = "exploration"
BUDGET = {"quick": 180, "thorough": 1800}
MAXP = {"quick": 3, "thorough": 4}
MAXPREFIX = {"quick": 2, "thorough": 3}
EXHAUSTIVE = {"quick": True, "thorough": True}
RULE = ("enumeration (sharded 16 ways): every parameter list over {positional-only, positional-or-keyword, *args, "
        "keyword-only, **kwargs} with all placements of defaults and two annotation patterns, up to 3 parameters "
        "(quick) / 4 (thorough); x callable flavour {function, method via instance, classmethod, staticmethod, class "
        "__init__, functools.wraps pass-through decorator}; x every prefix of complete arguments over {positional, "
        "kw=} for all parameter names (+ one unknown name) up to length 2 (quick) / 3 (thorough), one less for the longest lists, that binds "
        "(inspect.Signature.bind_partial succeeds); x argument being typed in {'', '0', name prefix, 'name=', "
        "'name=0'} plus two of six starred forms (*name, *[..], **name, **{..}, **a.b, **f()), rotating; plus Hypothesis-sampled 5-6 parameter lists and docstring shapes. Oracle = inspect.signature / "
        "inspect.getdoc of the executed definition; index must lie in may(cur) (the parameters some completion of "
        "the typed text could bind to), be None iff may is empty and equal when |may| = 1. `exhaustive` refers to "
        "this enumerated sub-space only. Non-trivial cell: the list has >=2 kinds, or the prefix has a keyword "
        "argument, or the callable is bound/decorated; distinct = hash(source, call).")
ASSUMPTIONS = ["CPython inspect as oracle for parameters, binding and docstrings (definitions are exec'd in a scratch namespace)",
               "starred arguments (*seq, **map) are enumerated only as the argument being typed, judged against the set of "
               "parameters some sequence / mapping could bind; completed starred arguments earlier in the call are not "
               "enumerated (their length is unknown statically)"]

NAMES = ["aa", "ab", "cc", "dd", "ee", "ff"]
P = inspect.Parameter


def param_lists(maxn):
    """Yield lists of (name, kind, default or None, annotation or None)."""
    for n in range(0, maxn + 1):
        for n_po in range(0, n + 1):
            for n_pok in range(0, n - n_po + 1):
                for va in (0, 1):
                    for vk in (0, 1):
                        n_ko = n - n_po - n_pok - va - vk
                        if n_ko < 0:
                            continue
                        npos = n_po + n_pok
                        for k_def in range(0, npos + 1):
                            for ko_mask in range(0, 2 ** n_ko):
                                for ann in (0, 1):
                                    ps = []
                                    names = iter(NAMES)
                                    for i in range(npos):
                                        kind = P.POSITIONAL_ONLY if i < n_po else P.POSITIONAL_OR_KEYWORD
                                        d = str(i + 1) if i >= npos - k_def else None
                                        ps.append((next(names), kind, d, "int" if ann and i % 2 == 0 else None))
                                    if va:
                                        ps.append(("args", P.VAR_POSITIONAL, None, "str" if ann else None))
                                    for j in range(n_ko):
                                        d = str(7 + j) if ko_mask >> j & 1 else None
                                        ps.append((next(names), P.KEYWORD_ONLY, d, None))
                                    if vk:
                                        ps.append(("kwargs", P.VAR_KEYWORD, None, None))
                                    if ann and not any(p[3] for p in ps):
                                        continue
                                    yield ps


def render_params(ps):
    out = []
    seen_po = any(p[1] == P.POSITIONAL_ONLY for p in ps)
    for i, (name, kind, d, ann) in enumerate(ps):
        if kind == P.KEYWORD_ONLY and not any(q[1] == P.VAR_POSITIONAL for q in ps) and "*" not in out \
                and all(q[1] != P.KEYWORD_ONLY for q in ps[:i]):
            out.append("*")
        s = {P.VAR_POSITIONAL: "*", P.VAR_KEYWORD: "**"}.get(kind, "") + name
        if ann:
            s += ": " + ann
        if d is not None:
            s += (" = " if ann else "=") + d
        out.append(s)
        if kind == P.POSITIONAL_ONLY and (i + 1 == len(ps) or ps[i + 1][1] != P.POSITIONAL_ONLY):
            out.append("/")
    return ", ".join(out)


FLAVOURS = ["function", "method", "classmethod", "staticmethod", "init", "wraps"]


def render_source(ps, flavour, doc=None):
    params = render_params(ps)
    docline = ('    %s\n' % doc) if doc else ""
    sp = lambda first: (first + ", " + params) if params else first
    if flavour == "function":
        return "def func(%s):\n%s    pass\n" % (params, docline), "func", "func"
    if flavour == "wraps":
        return ("import functools\ndef deco(wrapped):\n    @functools.wraps(wrapped)\n    def wrapper(*args, **kwargs):\n"
                "        return wrapped(*args, **kwargs)\n    return wrapper\n@deco\ndef func(%s):\n%s    pass\n" % (params, docline)), "func", "func"
    ind = docline.replace("    ", "        ", 1) if doc else ""
    if flavour == "method":
        return "class Klass:\n    def meth(%s):\n%s        pass\n" % (sp("self"), ind), "Klass().meth", "Klass().meth"
    if flavour == "classmethod":
        return "class Klass:\n    @classmethod\n    def meth(%s):\n%s        pass\n" % (sp("cls"), ind), "Klass.meth", "Klass.meth"
    if flavour == "staticmethod":
        return "class Klass:\n    @staticmethod\n    def meth(%s):\n%s        pass\n" % (params, ind), "Klass.meth", "Klass.meth"
    return "class Klass:\n    def __init__(%s):\n%s        pass\n" % (sp("self"), ind), "Klass", "Klass"


def may_set(sig, pos_prefix, kw_prefix, cur):
    """Indexes of parameters that some completion of `cur` could bind to, given the already complete prefix."""
    params = list(sig.parameters.values())
    try:
        bound = sig.bind_partial(*([0] * pos_prefix), **{k: 0 for k in kw_prefix})
    except TypeError:
        return None
    taken = set(bound.arguments)
    idx = {p.name: i for i, p in enumerate(params)}
    positional = [p for p in params if p.kind in (P.POSITIONAL_ONLY, P.POSITIONAL_OR_KEYWORD)]
    var_pos = [p for p in params if p.kind == P.VAR_POSITIONAL]
    var_kw = [p for p in params if p.kind == P.VAR_KEYWORD]

    def pos_slot():
        if kw_prefix:
            return set()          # a positional argument may not follow a keyword argument
        if pos_prefix < len(positional):
            return {idx[positional[pos_prefix].name]}
        if var_pos:
            return {idx[var_pos[0].name]}
        return set()

    def kw_target(name):
        p = sig.parameters.get(name)
        if p is not None and p.kind in (P.POSITIONAL_OR_KEYWORD, P.KEYWORD_ONLY):
            if name in taken:
                return set()
            return {idx[name]}
        if var_kw and name not in kw_prefix:
            return {idx[var_kw[0].name]}
        return set()

    if cur.startswith("**"):
        # a mapping whose keys are not known: it can bind every parameter a keyword can still reach
        out = {idx[p.name] for p in params if p.kind in (P.POSITIONAL_OR_KEYWORD, P.KEYWORD_ONLY) and p.name not in taken}
        if var_kw:
            out.add(idx[var_kw[0].name])
        return out
    if cur.startswith("*"):
        # a sequence of unknown length: the next free positional slot and everything positional behind it
        if kw_prefix:
            return None       # positional unpacking after keywords is legal Python but binds by rules not judged here
        out = {idx[p.name] for p in positional[pos_prefix:]}
        if var_pos:
            out.add(idx[var_pos[0].name])
        return out
    m = re.match(r"^([A-Za-z_]\w*)=", cur)
    if m:
        return kw_target(m.group(1))
    if cur == "" or re.match(r"^[A-Za-z_]\w*$", cur):
        out = pos_slot()
        for p in params:
            if p.name.startswith(cur) and p.kind in (P.POSITIONAL_OR_KEYWORD, P.KEYWORD_ONLY) and p.name not in taken:
                out.add(idx[p.name])
        if var_kw:
            out.add(idx[var_kw[0].name])
        return out
    return pos_slot()


STARRED = ['**{"zz": 0}', "*sq", "**ob.at", "*[0]", "**mk()", "**kw"]
_STAR_ROT = [0]
_PROJECT = []


def _project():
    if not _PROJECT:
        d = boot.tmp_root() / "c11proj"
        d.mkdir(exist_ok=True)
        _PROJECT.append(boot.jedi_boot().Project(str(d)))
    return _PROJECT[0]


def check_cells(ctx, ps, flavour, maxprefix, doc=None, devs=None):
    jedi = boot.jedi_boot()
    src, obj_expr, call_expr = render_source(ps, flavour, doc)
    ns = {}
    try:
        exec(compile(src, "<c11>", "exec"), ns)
        obj = eval(obj_expr, ns)
        want = inspect.signature(obj)
    except Exception as e:
        ctx.discard("definition rejected by CPython: %s" % type(e).__name__)
        return
    wparams = [(p.name, p.kind) for p in want.parameters.values()]
    kwable = [p.name for p in want.parameters.values() if p.kind in (P.POSITIONAL_OR_KEYWORD, P.KEYWORD_ONLY)]
    kinds = {p.kind for p in want.parameters.values()}
    # prefixes of complete arguments
    atoms = ["0"] + ["%s=0" % n for n in kwable] + ["zz=0"]
    cursors = ["", "0"] + sorted({n[:1] for n in kwable}) + ["%s=" % n for n in kwable[:3]] + ["zz=", "%s=0" % kwable[0] if kwable else "0"]
    line_no = src.count("\n") + 1
    first = True
    for plen in range(0, maxprefix + 1):
        for prefix in itertools.product(atoms, repeat=plen):
            pos_n = sum(1 for a in prefix if "=" not in a)
            kws = [a.split("=")[0] for a in prefix if "=" in a]
            if len(set(kws)) != len(kws):
                continue
            # positional after keyword is a SyntaxError
            seen_kw = False
            bad = False
            for a in prefix:
                if "=" in a:
                    seen_kw = True
                elif seen_kw:
                    bad = True
            if bad:
                continue
            # two of the starred forms per prefix, rotating (the expression after the stars is never evaluated: only
            # its syntactic form - bare name, display, attribute, call, nothing yet - matters to the code under test)
            rot = _STAR_ROT[0] = (_STAR_ROT[0] + 1) % 3
            for cur in cursors + STARRED[2 * rot:2 * rot + 2]:
                may = may_set(want, pos_n, kws, cur)
                if may is None:
                    continue
                call = call_expr + "(" + "".join(a + ", " for a in prefix) + cur
                code = src + call
                col = len(call)
                # every other cell is analysed under one constant path, as an editor re-analysing the same file does
                bpath = str(boot.tmp_root() / "c11proj" / "c11_buffer.py") if ctx.evaluations % 4 == 1 else None
                script = boot.fresh_script(code, path=bpath, project=_project())
                ctx.count()
                try:
                    sigs = script.get_signatures(line_no, col)
                except Exception as e:
                    devs.append((api.bucket(e, "get_signatures"), api.tb_tail(e)))
                    continue
                where = "%s | %s" % (render_params(ps), call)
                if len(sigs) != 1:
                    devs.append(("signature-count:%s" % flavour, "%s -> %d signatures" % (where, len(sigs))))
                    continue
                g = sigs[0]
                if not first and [(p.name, p.kind) for p in g.params] != wparams:
                    devs.append(("params-differ-from-inspect:%s" % flavour, "%s jedi=%s inspect=%s" % (where, [(p.name, p.kind.name) for p in g.params], [(n, k.name) for n, k in wparams])))
                    continue
                if first:
                    first = False
                    got = [(p.name, p.kind) for p in g.params]
                    if got != wparams:
                        devs.append(("params-differ-from-inspect:%s" % flavour, "%s jedi=%s inspect=%s" % (where, [(n, k.name) for n, k in got], [(n, k.name) for n, k in wparams])))
                    ts = g.to_string()
                    try:
                        ns2 = {}
                        exec("def reparsed" + ts[ts.index("("):] + ": pass", ns2)
                        if inspect.signature(ns2["reparsed"]) != want.replace(return_annotation=inspect.Signature.empty):
                            devs.append(("to_string-reparses-differently:%s" % flavour, "%s to_string=%r inspect=%s" % (where, ts, want)))
                    except Exception as e:
                        devs.append(("to_string-does-not-parse:%s" % flavour, "%s to_string=%r (%s)" % (where, ts, e)))
                    if flavour != "init":
                        raw = g.docstring(raw=True)
                        wdoc = inspect.getdoc(obj) or ""
                        if raw != wdoc:
                            devs.append(("raw-docstring-differs-from-getdoc:%s" % flavour, "%s jedi=%r getdoc=%r" % (where, raw, wdoc)))
                        full = g.docstring()
                        head = full[:len(full) - len(raw)] if raw else full
                        if (raw and not full.endswith("\n\n" + raw)) or "(" not in head or "\n\n" in head.rstrip("\n"):
                            devs.append(("docstring-is-not-signature-plus-raw:%s" % flavour, "%s full=%r raw=%r" % (where, full, raw)))
                bs = g.bracket_start
                if tuple(bs) != (line_no, len(call_expr)):
                    devs.append(("bracket_start", "%s -> %s expected %s" % (where, bs, (line_no, len(call_expr)))))
                i = g.index
                shape = "cur:%s" % ("dstar" if cur.startswith("**") else "star" if cur.startswith("*") else "kw=" if "=" in cur else "empty" if cur == "" else "expr" if cur == "0" else "ident")
                if (i is None) != (not may) or (i is not None and i not in may):
                    if not may:
                        mname = re.match(r"^([A-Za-z_]\w*)=", cur)
                        if cur.startswith("*"):
                            why = "starred"
                        elif mname and mname.group(1) in kws:
                            why = "repeated-keyword"
                        elif mname and mname.group(1) in want.parameters:
                            why = "keyword-for-positionally-bound-parameter"
                        elif mname:
                            why = "unknown-keyword"
                        elif kws:
                            why = "positional-after-keyword"
                        else:
                            why = "too-many-positionals"
                        sig_ = "index-not-None-for-unbindable-argument:" + why
                    elif i is None:
                        sig_ = "index-None-for-bindable-argument:" + shape
                    else:
                        sig_ = "index-wrong:%s:%s" % (shape, "prefix-has-kw" if kws else "positional-prefix")
                    devs.append((sig_, "%s -> index %s, bindable %s" % (where, i, sorted(may))))
                if len(kinds) >= 2 or kws or flavour != "function":
                    ctx.nontriv([src, call])
                ctx.cls("flavour:" + flavour, shape)
    ctx.sample({"params": render_params(ps), "flavour": flavour, "example_call": call_expr + "(0, " + (kwable[0] + "=" if kwable else "")}, limit=4)


DOCS = ['"""plain doc"""', '"""  leading spaces\n       second line\n\n    third\n    """', "'''single quotes'''",
        'r"""raw \\n backslash"""', '"""\n    starts on next line\n    """', '"""trailing   \n    spaces  \n    """',
        '"""ünï \\x41 \\\\ cödé"""', '"doc in plain quotes"']


@st.composite
def sampled(draw):
    n_po, n_pok, n_ko = draw(st.integers(0, 2)), draw(st.integers(0, 3)), draw(st.integers(0, 2))
    va, vk = draw(st.booleans()), draw(st.booleans())
    ps = []
    names = iter(NAMES)
    npos = n_po + n_pok
    k_def = draw(st.integers(0, npos))
    for i in range(npos):
        ps.append((next(names), P.POSITIONAL_ONLY if i < n_po else P.POSITIONAL_OR_KEYWORD,
                   str(i + 1) if i >= npos - k_def else None, draw(st.sampled_from([None, "int", "str"]))))
    if va:
        ps.append(("args", P.VAR_POSITIONAL, None, None))
    for j in range(min(n_ko, 6 - npos)):
        ps.append((next(names), P.KEYWORD_ONLY, draw(st.sampled_from([None, "9"])), None))
    if vk:
        ps.append(("kwargs", P.VAR_KEYWORD, None, None))
    return {"ps": [[a, int(b), c, d] for a, b, c, d in ps], "flavour": draw(st.sampled_from(FLAVOURS)),
            "doc": draw(st.sampled_from(DOCS + [None]))}


def run_sampled(ctx, case):
    ps = [(a, inspect._ParameterKind(b), c, d) for a, b, c, d in case["ps"]]
    devs = []
    with core.time_limit(300):
        check_cells(ctx, ps, case["flavour"], 1, case["doc"], devs)
    for sig, detail in devs:
        ctx.judge(sig, detail, case)


def shard(ctx):
    lists = list(param_lists(MAXP[ctx.tier]))
    work = [(ps, fl) for ps in lists for fl in FLAVOURS]
    mine = work[ctx.shard::ctx.nshards]
    done = 0
    prev_by_flavour = {}
    for ps, fl in mine:
        if ctx.out_of_time(0.75):
            ctx.extra["enumeration_cut_short_by_budget"] = 1
            break
        case = {"ps": [[a, int(b), c, d] for a, b, c, d in ps], "flavour": fl, "doc": None, "maxprefix": MAXPREFIX[ctx.tier],
                "prev": prev_by_flavour.get(fl)}   # the last group with the same call text (same buffer path): its history
        prev = prev_by_flavour[fl] = {k: v for k, v in case.items() if k != "prev"}
        devs = []
        try:
            with core.time_limit(300):
                mp = MAXPREFIX[ctx.tier] if len(ps) < MAXP[ctx.tier] else MAXPREFIX[ctx.tier] - 1
                case["maxprefix"] = mp
                prev["maxprefix"] = mp
                check_cells(ctx, ps, fl, mp, None, devs)
            for sig, detail in devs:
                ctx.judge(sig, detail, case)
        except core.Violation as v:
            ctx.violations.append({"sig": v.sig, "detail": v.detail, "case": v.case})
            ctx.ignore_sigs.add(v.sig)
        except core.Inconclusive:
            ctx.inconclusive += 1
        done += 1
    ctx.extra["parameter_lists_x_flavours_enumerated"] = ctx.extra.get("parameter_lists_x_flavours_enumerated", 0) + done
    ctx.extra["parameter_lists_x_flavours_total"] = len(work) if ctx.shard == 0 else 0
    core.drive(ctx, sampled(), lambda c: run_sampled(ctx, c), 12 if ctx.tier == "quick" else 300)


def replay(ctx, case):
    if case.get("prev"):
        pv = case["prev"]
        check_cells(ctx, [(a, inspect._ParameterKind(b), c, d) for a, b, c, d in pv["ps"]], pv["flavour"], pv.get("maxprefix", 1), pv.get("doc"), [])
    ps = [(a, inspect._ParameterKind(b), c, d) for a, b, c, d in case["ps"]]
    devs = []
    check_cells(ctx, ps, case["flavour"], case.get("maxprefix", 1), case.get("doc"), devs)
    for sig, detail in devs:
        ctx.judge(sig, detail, case)
