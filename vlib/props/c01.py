"""C01 — the query API is total on any source text and cursor position."""
import re
from hypothesis import strategies as st
from .. import boot, core, corpus, api

ID = "C01"
LEVEL = "exploration"
BUDGET = {"quick": 140, "thorough": 1500}
EXAMPLES = {"quick": 90, "thorough": 1400}      # per shard
RULE = ("cases = (text, 5 positions, all 7 positional Script methods + get_names/search/complete_search/"
        "get_syntax_errors, results walked to depth 1 over every documented attribute); texts are frozen-corpus "
        "windows put through Hypothesis-drawn mutators (prefixes, token/line edits, EOL styles, unicode, token soup). "
        "Oracle: no exception in range; ValueError and nothing else out of range. A case is non-trivial when the text "
        "is not compilable, or a cursor is strictly inside a token, or >=1 result object was walked; distinct = "
        "hash(text, queries).")
ASSUMPTIONS = ["vendored typeshed stdlib stubs (the checkout's typeshed submodule is empty)",
               "parso 0.8.7 as installed in /venv", "nesting depth of generated texts capped at 30",
               "per-call watchdog 60 s => inconclusive"]

POS_METHODS = api.SCRIPT_POS_METHODS


@st.composite
def texts(draw):
    kind = draw(st.sampled_from(["window", "window", "window", "soup", "tiny", "idiom"]))
    if kind == "soup":
        return "soup", draw(corpus.soups()), ["soup"]
    if kind == "idiom":
        # a whole idiom file (constructs the anchored code special-cases) with one number literal swapped for another
        # numeric form, plus the usual mutators
        idioms = sorted({(n, t) for n, t in corpus.files() if n.startswith("idioms/")})
        name, t = draw(st.sampled_from(idioms))
        t, a1 = draw(corpus.mutate(t, kinds=["num_swap"]))
        t, a2 = draw(corpus.mutate(t, kinds=["none", "none", "num_swap", "del_token", "ins_token", "prefix_token", "del_line", "crlf"]))
        return name, t, ["idiom"] + a1 + a2
    if kind == "tiny":
        name, t = draw(corpus.windows(lo=1, hi=6))
    else:
        name, t = draw(corpus.windows(lo=5, hi=45))
    t, applied = draw(corpus.mutate(t))
    return name, t, applied


@st.composite
def positions(draw, text, n):
    lines = corpus.split_lines(text)
    bounds = sorted(set(corpus.token_bounds(text)))
    out = []
    for _ in range(n):
        how = draw(st.sampled_from(["tok", "tok", "tok-1", "tok+1", "any", "oor"]))
        if how.startswith("tok") and bounds:
            off = draw(st.sampled_from(bounds)) + {"tok": 0, "tok-1": -1, "tok+1": 1}[how]
            off = min(max(off, 0), len(text))
            pre = text[:off]
            pl = corpus.split_lines(pre)
            out.append([len(pl), len(pl[-1])])
        elif how == "oor":
            li = draw(st.sampled_from([0, -1, len(lines) + 1, len(lines), 1, draw(st.integers(1, len(lines)))]))
            ref = lines[min(max(li, 1), len(lines)) - 1]
            col = draw(st.sampled_from([-1, len(ref) + 1, len(ref), len(ref.rstrip("\r\n")) + 1, 0, 10 ** 6]))
            out.append([li, col])
        else:
            li = draw(st.integers(1, len(lines)))
            out.append([li, draw(st.integers(0, len(lines[li - 1].rstrip("\r\n"))))])
    return out


@st.composite
def cases(draw):
    name, text, applied = draw(texts())
    pos = draw(positions(text, 5))
    words = re.findall(r"\w+", text)
    sw = draw(st.sampled_from(words)) if words else "x"
    sw2 = draw(st.sampled_from([sw, sw[: max(1, len(sw) // 2)], "", ".", sw + ".", "class " + sw, "os.pa", "..", "a b"]))
    return {"origin": name, "mut": applied, "text": text, "positions": pos, "search": sw2,
            "path": draw(st.sampled_from([None, None, "buf.py"]))}


def classify_pos(text, line, col):
    lines = corpus.split_lines(text)
    if not (1 <= line <= len(lines)) or col < 0 or col > len(lines[line - 1]):
        return "out"
    if corpus.in_range(text, line, col):
        return "in"
    return "ambiguous"   # inside / behind the line terminator


def run_case(ctx, case):
    jedi = boot.jedi_boot()
    text = case["text"]
    if corpus.nesting_depth(text) > 30:
        ctx.discard("nesting>30")
        return
    ctx.count()
    walked = 0
    path = None
    if case.get("path"):
        path = str(boot.fresh_dir("c01") / case["path"])

    devs = []

    def dev(sig, detail):
        devs.append((sig, detail))

    with core.time_limit(120):
        try:
            s = boot.fresh_script(text, path=path)
        except Exception as e:
            ctx.judge(api.bucket(e, "Script"), api.tb_tail(e), case)
            return
        def in_range_valueerror(e, m, line, col):
            # shape class of the one confirmed finding: a leading U+FEFF shifts the columns of line 1
            if text.startswith("\ufeff") and line == 1:
                dev("valueerror-in-range:leading-bom-line1", "%s at %s" % (api.tb_tail(e), (line, col)))
            else:
                dev(api.bucket(e, m), "%s at %s" % (api.tb_tail(e), (line, col)))

        for line, col in case["positions"]:
            where = classify_pos(text, line, col)
            for m in POS_METHODS:
                try:
                    res = getattr(s, m)(line, col)
                except ValueError as e:
                    if where == "in":
                        in_range_valueerror(e, m, line, col)
                    continue
                except Exception as e:
                    dev(api.bucket(e, m), "%s at %s" % (api.tb_tail(e), (line, col)))
                    continue
                if where == "out":
                    dev("no-valueerror-out-of-range:%s" % m, "returned normally at %s" % ((line, col),))
                    continue
                objs = [res] if m == "get_context" else list(res)
                if len(objs) > 6:
                    step = len(objs) // 6
                    objs = objs[::step][:6]
                for o in objs:
                    walked += 1
                    for label, e in api.touch(o, depth=1):
                        dev(api.bucket(e, m + "->" + label), "%s at %s" % (api.tb_tail(e), (line, col)))
        # fuzzy completion at the first in-range positions
        for line, col in case["positions"][:2]:
            if classify_pos(text, line, col) == "in":
                try:
                    for o in s.complete(line, col, fuzzy=True)[:3]:
                        for label, e in api.touch(o, depth=0):
                            dev(api.bucket(e, "complete(fuzzy)->" + label), api.tb_tail(e))
                except ValueError as e:
                    in_range_valueerror(e, "complete", line, col)
                except Exception as e:
                    dev(api.bucket(e, "complete"), api.tb_tail(e))
        for label, fn in (
            ("get_names", lambda: s.get_names()),
            ("get_names(all)", lambda: s.get_names(all_scopes=True, definitions=True, references=True)),
            ("search", lambda: list(s.search(case["search"]))),
            ("search(all_scopes)", lambda: list(s.search(case["search"], all_scopes=True))),
            ("complete_search", lambda: list(s.complete_search(case["search"]))),
        ):
            try:
                res = fn()
            except Exception as e:
                dev(api.bucket(e, label), api.tb_tail(e))
                continue
            for o in res[:4]:
                walked += 1
                for lab, e in api.touch(o, depth=0):
                    dev(api.bucket(e, label + "->" + lab), api.tb_tail(e))
        try:
            for err in s.get_syntax_errors():
                err.line, err.column, err.until_line, err.until_column, err.get_message(), repr(err)
        except Exception as e:
            dev(api.bucket(e, "get_syntax_errors"), api.tb_tail(e))

    for sig, detail in devs:
        ctx.judge(sig, detail, case)
    compilable = corpus.is_compilable(text)
    inside = any(_strictly_inside_token(text, l, c) for l, c in case["positions"])
    ctx.cls("compilable" if compilable else "broken")
    for m_ in case["mut"] or ["unmutated"]:
        ctx.cls("mut:" + m_)
    for l, c in case["positions"]:
        ctx.cls("pos:" + classify_pos(text, l, c))
    if (not compilable) or inside or walked:
        ctx.nontriv([text, case["positions"]])
    ctx.sample({"origin": case["origin"], "mutators": case["mut"], "text": text[:300], "positions": case["positions"],
                "result_objects_walked": walked})


def _strictly_inside_token(text, line, col):
    lines = corpus.split_lines(text)
    if not (1 <= line <= len(lines)):
        return False
    s = lines[line - 1]
    return 0 < col < len(s) and re.match(r"\w", s[col - 1]) is not None and re.match(r"\w", s[col]) is not None


def shard(ctx):
    core.drive(ctx, cases(), lambda c: run_case(ctx, c), EXAMPLES[ctx.tier])


def replay(ctx, case):
    run_case(ctx, case)
