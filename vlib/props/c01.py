"""C01 — the query API is total on any source text and cursor position."""
import re
from hypothesis import strategies as st
from .. import boot, core, corpus, api

ID = "C01"
LEVEL = "exploration"
BUDGET = {"quick": 140, "thorough": 1500}
EXAMPLES = {"quick": 90, "thorough": 1400}      # per shard
RULE = ("cases = (text, 5 positions, all 7 positional Script methods + get_names/search/complete_search/"
        "get_syntax_errors, results walked to depth 1 over every documented attribute); texts are frozen-corpus "
        "windows put through Hypothesis-drawn mutators (prefixes, token/line edits, EOL styles, unicode, token soup). "
        "Oracle: no exception in range; ValueError and nothing else out of range. A case is non-trivial when the text "
        "is not compilable, or a cursor is strictly inside a token, or >=1 result object was walked; distinct = "
        "hash(text, queries).")
ASSUMPTIONS = ["vendored typeshed stdlib stubs (the checkout's typeshed submodule is empty)",
               "parso 0.8.7 as installed in /venv", "nesting depth of generated texts capped at 30",
               "per-call watchdog 60 s => inconclusive"]

POS_METHODS = api.SCRIPT_POS_METHODS


@st.composite
def texts(draw):
    kind = draw(st.sampled_from(["window", "window", "window", "soup", "tiny", "idiom"]))
    if kind == "soup":
        return "soup", draw(corpus.soups()), ["soup"]
    if kind == "idiom":
        # a whole idiom file (constructs the anchored code special-cases) with one number literal swapped for another
        # numeric form, plus the usual mutators
        idioms = sorted({(n, t) for n, t in corpus.files() if n.startswith("idioms/")})
        name, t = draw(st.sampled_from(idioms))
        t, a1 = draw(corpus.mutate(t, kinds=["num_swap"]))
        t, a2 = draw(corpus.mutate(t, kinds=["none", "none", "num_swap", "del_token", "ins_token", "prefix_token", "del_line", "crlf"]))
        return name, t, ["idiom"] + a1 + a2
    if kind == "tiny":
        name, t = draw(corpus.windows(lo=1, hi=6))
    else:
        name, t = draw(corpus.windows(lo=5, hi=45))
    t, applied = draw(corpus.mutate(t))
    return name, t, applied


@st.composite
def positions(draw, text, n):
    lines = corpus.split_lines(text)
    bounds = sorted(set(corpus.token_bounds(text)))
    out = []
    for _ in range(n):
        how = draw(st.sampled_from(["tok", "tok", "tok-1", "tok+1", "any", "oor"]))
        if how.startswith("tok") and bounds:
            off = draw(st.sampled_from(bounds)) + {"tok": 0, "tok-1": -1, "tok+1": 1}[how]
            off = min(max(off, 0), len(text))
            pre = text[:off]
            pl = corpus.split_lines(pre)
            out.append([len(pl), len(pl[-1])])
        elif how == "oor":
            li = draw(st.sampled_from([0, -1, len(lines) + 1, len(lines), 1, draw(st.integers(1, len(lines)))]))
            ref = lines[min(max(li, 1), len(lines)) - 1]
            col = draw(st.sampled_from([-1, len(ref) + 1, len(ref), len(ref.rstrip("\r\n")) + 1, 0, 10 ** 6]))
            out.append([li, col])
        else:
            li = draw(st.integers(1, len(lines)))
            out.append([li, draw(st.integers(0, len(lines[li - 1].rstrip("\r\n"))))])
    return out


@st.composite
def cases(draw):
    name, text, applied = draw(texts())
    pos = draw(positions(text, 5))
    words = re.findall(r"\w+", text)
    sw = draw(st.sampled_from(words)) if words else "x"
    sw2 = draw(st.sampled_from([sw, sw[: max(1, len(sw) // 2)], "", ".", sw + ".", "class " + sw, "os.pa", "..", "a b"]))
    return {"origin": name, "mut": applied, "text": text, "positions": pos, "search": sw2,
            "path": draw(st.sampled_from([None, None, "buf.py"]))}


def classify_pos(text, line, col):
    lines = corpus.split_lines(text)
    if not (1 <= line <= len(lines)) or col < 0 or col > len(lines[line - 1]):
        return "out"
    if corpus.in_range(text, line, col):
        return "in"
    return "ambiguous"   # inside / behind the line terminator


def probe(s, text, m, line, col, dev, in_range_valueerror, max_objs=6, depth=1):
    """One positional query + attribute walk of its results, judged against the exception contract.
    Shared by the Hypothesis stage (run_case) and the atheris stage (vlib/fuzz_c01.py). Returns #objects walked."""
    where = classify_pos(text, line, col)
    try:
        res = getattr(s, m)(line, col)
    except ValueError as e:
        if where == "in":
            in_range_valueerror(e, m, line, col)
        return 0
    except Exception as e:
        dev(api.bucket(e, m), "%s at %s" % (api.tb_tail(e), (line, col)))
        return 0
    if where == "out":
        dev("no-valueerror-out-of-range:%s" % m, "returned normally at %s" % ((line, col),))
        return 0
    objs = [res] if m == "get_context" else list(res)
    if len(objs) > max_objs:
        step = len(objs) // max_objs
        objs = objs[::step][:max_objs]
    n = 0
    for o in objs:
        n += 1
        for label, e in api.touch(o, depth=depth):
            dev(api.bucket(e, m + "->" + label), "%s at %s" % (api.tb_tail(e), (line, col)))
    return n


def probe_global(s, m, search, dev, max_objs=4):
    """The position-less queries (get_names, search, complete_search, get_syntax_errors), same contract."""
    if m == "get_syntax_errors":
        try:
            for err in s.get_syntax_errors():
                err.line, err.column, err.until_line, err.until_column, err.get_message(), repr(err)
        except Exception as e:
            dev(api.bucket(e, "get_syntax_errors"), api.tb_tail(e))
        return 0
    variants = {
        "get_names": (("get_names", lambda: s.get_names()),
                      ("get_names(all)", lambda: s.get_names(all_scopes=True, definitions=True, references=True))),
        "search": (("search", lambda: list(s.search(search))),
                   ("search(all_scopes)", lambda: list(s.search(search, all_scopes=True)))),
        "complete_search": (("complete_search", lambda: list(s.complete_search(search))),),
    }[m]
    n = 0
    for label, fn in variants:
        try:
            res = fn()
        except Exception as e:
            dev(api.bucket(e, label), api.tb_tail(e))
            continue
        for o in res[:max_objs]:
            n += 1
            for lab, e in api.touch(o, depth=0):
                dev(api.bucket(e, label + "->" + lab), api.tb_tail(e))
    return n


def bom_aware(text, dev):
    def in_range_valueerror(e, m, line, col):
        # shape class of the one confirmed finding: a leading U+FEFF shifts the columns of line 1
        if text.startswith("\ufeff") and line == 1:
            dev("valueerror-in-range:leading-bom-line1", "%s at %s" % (api.tb_tail(e), (line, col)))
        else:
            dev(api.bucket(e, m), "%s at %s" % (api.tb_tail(e), (line, col)))
    return in_range_valueerror


def run_case(ctx, case):
    jedi = boot.jedi_boot()
    text = case["text"]
    if corpus.nesting_depth(text) > 30:
        ctx.discard("nesting>30")
        return
    ctx.count()
    walked = 0
    path = None
    if case.get("path"):
        path = str(boot.fresh_dir("c01") / case["path"])

    devs = []

    def dev(sig, detail):
        devs.append((sig, detail))

    with core.time_limit(120):
        try:
            s = boot.fresh_script(text, path=path)
        except Exception as e:
            ctx.judge(api.bucket(e, "Script"), api.tb_tail(e), case)
            return
        in_range_valueerror = bom_aware(text, dev)

        for line, col in case["positions"]:
            for m in POS_METHODS:
                walked += probe(s, text, m, line, col, dev, in_range_valueerror)
        # fuzzy completion at the first in-range positions
        for line, col in case["positions"][:2]:
            if classify_pos(text, line, col) == "in":
                try:
                    for o in s.complete(line, col, fuzzy=True)[:3]:
                        for label, e in api.touch(o, depth=0):
                            dev(api.bucket(e, "complete(fuzzy)->" + label), api.tb_tail(e))
                except ValueError as e:
                    in_range_valueerror(e, "complete", line, col)
                except Exception as e:
                    dev(api.bucket(e, "complete"), api.tb_tail(e))
        for label in ("get_names", "search", "complete_search", "get_syntax_errors"):
            walked += probe_global(s, label, case["search"], dev)

    for sig, detail in devs:
        ctx.judge(sig, detail, case)
    compilable = corpus.is_compilable(text)
    inside = any(_strictly_inside_token(text, l, c) for l, c in case["positions"])
    ctx.cls("compilable" if compilable else "broken")
    for m_ in case["mut"] or ["unmutated"]:
        ctx.cls("mut:" + m_)
    for l, c in case["positions"]:
        ctx.cls("pos:" + classify_pos(text, l, c))
    if (not compilable) or inside or walked:
        ctx.nontriv([text, case["positions"]])
    ctx.sample({"origin": case["origin"], "mutators": case["mut"], "text": text[:300], "positions": case["positions"],
                "result_objects_walked": walked})


def _strictly_inside_token(text, line, col):
    lines = corpus.split_lines(text)
    if not (1 <= line <= len(lines)):
        return False
    s = lines[line - 1]
    return 0 < col < len(s) and re.match(r"\w", s[col - 1]) is not None and re.match(r"\w", s[col]) is not None


# Coverage-guided stage (atheris / libFuzzer, vlib/fuzz_c01.py): which shards run it, from which starting corpus
FUZZ_SHARDS = {"quick": {14: "seeds", 15: "empty"},
               "thorough": {10: "seeds", 11: "seeds", 12: "seeds", 13: "seeds", 14: "empty", 15: "empty"}}
FUZZ_RUNS = {"quick": 20000, "thorough": 400000}


def fuzz_shard(ctx, mode):
    """Run one libFuzzer campaign in a child process (atheris.Fuzz() never returns) and fold its counters and its
    finding files into this shard's result. New signatures become violations; the runner confirms each of them alone
    in a fresh process through the ordinary replay path (run_case) before reporting."""
    import os, sys, json, subprocess
    from pathlib import Path
    deps = boot.VERIF / ".deps"
    if not (deps / "atheris").exists():
        ctx.cls("fuzz:skipped-atheris-not-installed")
        return core.drive(ctx, cases(), lambda c: run_case(ctx, c), EXAMPLES[ctx.tier])
    out = boot.fresh_dir("fuzz")
    secs = int(ctx.budget * 0.8)
    env = dict(os.environ)
    env.pop("PYTHONPATH", None)
    cmd = [boot.PY, "-m", "vlib.fuzz_c01", str(out), mode, "-runs=%d" % FUZZ_RUNS[ctx.tier],
           "-seed=%d" % (ctx.hyp_seed() % (2 ** 31 - 1) + 1), "-max_total_time=%d" % secs]
    log = open(out / "fuzz.log", "wb")
    try:
        p = subprocess.run(cmd, cwd=str(boot.VERIF), env=env, stdout=log, stderr=subprocess.STDOUT,
                           timeout=secs + 240)
        rc = p.returncode
    except subprocess.TimeoutExpired:
        rc = "timeout"
    log.close()
    tail = (out / "fuzz.log").read_bytes()[-6000:].decode("utf8", "replace")
    st = out / "stats.json"
    if not st.exists():
        ctx.harness_errors.append("fuzz stage produced no stats (rc=%s)\n%s" % (rc, tail[-2500:]))
        return
    stats = json.loads(st.read_text())
    if rc not in (0, "timeout") and not list(out.glob("finding-*.json")):
        # libFuzzer itself died (it must not: the target swallows and records every exception)
        ctx.harness_errors.append("fuzz stage exited with rc=%s\n%s" % (rc, tail[-2500:]))
    ctx.count(stats["judged"])
    for k, v in stats["classes"].items():
        ctx.classes[k] += v
    ctx.classes["fuzz:campaigns:" + mode] += 1
    for k, v in stats["known_hits"].items():
        ctx.known_hits[k] += v
    for k, v in stats["discarded"].items():
        ctx.discarded["fuzz:" + k] += v
    ctx.inconclusive += stats["inconclusive"]
    for i in range(stats["nontrivial"]):
        ctx.nontrivial.add("fuzz-%d-%d" % (ctx.shard, i))     # distinct inputs (hash of the bytes) counted by the target
    for sm in stats["samples"][:1]:
        ctx.sample(sm)
    m = re.findall(r"cov: (\d+) ft: (\d+) corp: (\d+)", tail)
    if m:
        ctx.extra["fuzz_corpus_units_" + mode] = int(m[-1][2])
        ctx.extra["fuzz_features_" + mode] = int(m[-1][1])
    for f in sorted(out.glob("finding-*.json")):
        d = json.loads(f.read_text())
        ctx.violations.append({"sig": d["sig"], "detail": d["detail"], "case": d["case"]})


def shard(ctx):
    mode = FUZZ_SHARDS[ctx.tier].get(ctx.shard) if ctx.nshards == 16 else None
    if mode:
        return fuzz_shard(ctx, mode)
    core.drive(ctx, cases(), lambda c: run_case(ctx, c), EXAMPLES[ctx.tier])


def replay(ctx, case):
    run_case(ctx, case)
