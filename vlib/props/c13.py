"""C13 — Interpreter reflects the live objects; safe mode runs no user descriptors."""
import sys
import types
import importlib.util
from hypothesis import strategies as st
from .. import boot, core, api

ID = "C13"
LEVEL = "exploration"
BUDGET = {"quick": 120, "thorough": 1500}
EXAMPLES = {"quick": 400, "thorough": 4000}
RULE = ("cases = generated class families (properties, data / non-data descriptors, __slots__, metaclass with a "
        "property, __getattr__, __getitem__/__iter__/__next__/__call__/__len__/__bool__ (each counting its calls), "
        "subclasses of builtin containers, inheritance of all these; defined either by exec (no findable source) or "
        "in an importable temp module), instantiated into nested graphs (instances in dict/list/tuple attributes) and "
        "put into 1-2 namespace dicts; x expressions reaching them (obj., obj.attr., obj[0]., obj['k']., obj()., "
        "Class., for-loop variable, `obj or 1`, len(obj), attribute/index paths to depth 3) x Interpreter.complete/"
        "infer/goto/help/get_signatures x {safe, unsafe}. Oracle: in safe mode every call counter of the listed "
        "special methods stays 0; in both modes complete('obj.') covers dir(obj); infer on a plain attribute/"
        "container path reports type(reached object). Non-trivial: the receiver's class (or metaclass/base) defines a "
        "counted special method and the query returned >=1 result; distinct = hash(source, expression, mode).")
ASSUMPTIONS = ["call counters inside the generated special methods observe execution", "dir() of the live object is the inventory",
               "__getattr__/__getattribute__ are recorded but not judged (not in the statement's list)"]

COUNTED = ["prop", "desc_get", "data_desc_get", "meta_prop", "getitem", "iter", "next", "call", "len", "bool", "base_prop"]


def class_source(features, idx):
    """Source of a small class family named K<idx>* with the requested features."""
    L = []
    A = L.append
    A("class NonData%d:" % idx)
    A("    def __get__(self, inst, owner):")
    A("        COUNTS['desc_get'] += 1")
    A("        return 11")
    A("class DataDesc%d:" % idx)
    A("    def __get__(self, inst, owner):")
    A("        COUNTS['data_desc_get'] += 1")
    A("        return 'dd'")
    A("    def __set__(self, inst, value):")
    A("        pass")
    A("class Meta%d(type):" % idx)
    if "meta_prop" in features:
        A("    @property")
        A("    def meta_prop(cls):")
        A("        COUNTS['meta_prop'] += 1")
        A("        return 3.5")
    A("    meta_plain = 'mp'")
    A("class Base%d:" % idx)
    A("    base_attr = 5")
    if "base_prop" in features:
        A("    @property")
        A("    def base_prop(self):")
        A("        COUNTS['base_prop'] += 1")
        A("        return []")
    A("    def base_method(self, arg=1):")
    A("        return arg")
    base = "Base%d" % idx
    if "dict_subclass" in features:
        base = "dict, " + base if False else "dict"
    elif "list_subclass" in features:
        base = "list"
    meta = ", metaclass=Meta%d" % idx if "metaclass" in features or "meta_prop" in features else ""
    A("class K%d(%s%s):" % (idx, base, meta))
    if "slots" in features and base.startswith("Base"):
        A("    __slots__ = ('slot_a', 'slot_b')")
    A("    cls_attr = 'c'")
    if "prop" in features:
        A("    @property")
        A("    def prop(self):")
        A("        COUNTS['prop'] += 1")
        A("        return {'k': 1}")
    if "desc" in features:
        A("    nondata = NonData%d()" % idx)
    if "data_desc" in features:
        A("    datadesc = DataDesc%d()" % idx)
    A("    def __init__(self, *items):")
    if base in ("dict",):
        A("        dict.__init__(self, k=1, other='v')")
    elif base == "list":
        A("        list.__init__(self, [1, 'two'])")
    if "slots" in features and base.startswith("Base"):
        A("        self.slot_a = items[0] if items else 1")
    else:
        A("        self.payload = items[0] if items else 1")
        A("        self.items_list = [items[0] if items else 2, 'x']")
        A("        self.items_dict = {'k': items[0] if items else 3}")
        A("        self.items_tuple = (items[0] if items else 4, 1.5)")
    if "data_desc" in features and "shadow" in features and not ("slots" in features and base.startswith("Base")):
        A("        self.__dict__['datadesc'] = 5      # instance entry shadowed by the data descriptor")
    A("    def method(self, first, second=2):")
    A("        return first")
    if "getattr" in features:
        A("    def __getattr__(self, name):")
        A("        COUNTS['getattr'] += 1")
        A("        raise AttributeError(name)")
    if "getitem" in features:
        A("    def __getitem__(self, key):")
        A("        COUNTS['getitem'] += 1")
        A("        return 'item'")
    if "iter" in features:
        A("    def __iter__(self):")
        A("        COUNTS['iter'] += 1")
        A("        return iter([1, 2])")
    if "next" in features:
        A("    def __next__(self):")
        A("        COUNTS['next'] += 1")
        A("        raise StopIteration")
    if "call" in features:
        A("    def __call__(self, *a):")
        A("        COUNTS['call'] += 1")
        A("        return 7")
    if "len" in features:
        A("    def __len__(self):")
        A("        COUNTS['len'] += 1")
        A("        return 2")
    if "bool" in features:
        A("    def __bool__(self):")
        A("        COUNTS['bool'] += 1")
        A("        return True")
    A("class Sub%d(K%d):" % (idx, idx))
    A("    sub_attr = 1.0")
    return "\n".join(L) + "\n"


FEATURES = ["prop", "desc", "data_desc", "data_desc", "shadow", "shadow", "slots", "metaclass", "meta_prop", "getattr", "getitem", "iter", "next", "call",
            "len", "bool", "base_prop", "dict_subclass", "list_subclass"]


@st.composite
def cases(draw):
    feats = draw(st.lists(st.sampled_from(FEATURES), min_size=1, max_size=5, unique=True))
    if "dict_subclass" in feats and "list_subclass" in feats:
        feats.remove("list_subclass")
    if ("dict_subclass" in feats or "list_subclass" in feats) and "slots" in feats:
        feats.remove("slots")
    findable = draw(st.booleans())
    which = draw(st.sampled_from(["K", "Sub"]))
    exprs = draw(st.lists(st.sampled_from([
        "obj.", "obj.pay", "obj.prop.", "obj.method(", "obj[0].", "obj['k'].", "obj().", "Cls.", "Cls.meta_prop.", "Cls.meta_plain.",
        "for x in obj:\n    x.", "(obj or 1).", "len(obj).", "obj.items_list[0].", "obj.items_dict['k'].", "obj.items_tuple[1].",
        "box['inner'][0].", "box['inner'][0].payload.", "holder.payload.items_list[0].", "obj.nondata.", "obj.datadesc.",
        "obj.base_prop.", "obj.base_method(", "not obj", "obj.slot_a.", "[y for y in obj][0].", "obj.cls_attr.", "Cls().",
        "ns2obj.payload.", "obj.items_list[1].upper", "obj.items_dict['k']",
    ]), min_size=3, max_size=7, unique=True))
    return {"features": sorted(feats), "findable": findable, "which": which, "exprs": exprs,
            "two_namespaces": draw(st.booleans())}


def build(case, idx=0):
    src = "COUNTS = {k: 0 for k in %r}\nCOUNTS['getattr'] = 0\n" % (COUNTED,) + class_source(case["features"], idx)
    if case["findable"]:
        d = boot.fresh_dir("c13mod")
        name = "c13_generated_%d" % abs(hash(src) % 10 ** 8)
        p = d / (name + ".py")
        p.write_text(src)
        spec = importlib.util.spec_from_file_location(name, str(p))
        mod = importlib.util.module_from_spec(spec)
        sys.modules[name] = mod
        spec.loader.exec_module(mod)
        ns = vars(mod)
        cleanup = lambda: sys.modules.pop(name, None)
    else:
        ns = {"__name__": "__main__"}
        exec(src, ns)
        cleanup = lambda: None
    Cls = ns[("K%d" if case["which"] == "K" else "Sub%d") % idx]
    obj = Cls()
    inner = Cls(obj)
    holder = Cls(inner)
    namespace = {"obj": obj, "Cls": Cls, "box": {"inner": [inner, 1], "t": (obj,)}, "holder": holder}
    namespaces = [namespace]
    if case["two_namespaces"]:
        namespaces = [{"ns2obj": inner}, namespace]
    else:
        namespace["ns2obj"] = inner
    return ns, namespaces, cleanup


def reach(namespaces, expr):
    """Evaluate a *plain* path (attributes of instances and items of builtin containers only) -> object or None."""
    import re
    m = re.match(r"^(\w+)((?:\.\w+|\[(?:\d+|'\w+')\])*)\.?$", expr)
    if not m:
        return None
    env = {}
    for n in namespaces:
        env.update(n)
    cur = env.get(m.group(1))
    if cur is None:
        return None
    for step in re.findall(r"\.\w+|\[(?:\d+|'\w+')\]", m.group(2)):
        if step.startswith("."):
            name = step[1:]
            d = getattr(cur, "__dict__", None)
            if not isinstance(d, dict) or name not in d:
                return None          # not a plain instance attribute
            import inspect
            if inspect.getattr_static(type(cur), name, None) is not None:
                return None          # the class defines it too (descriptor / class attribute): not a plain path
            cur = d[name]
        else:
            if type(cur) not in (list, tuple, dict):
                return None
            key = step[1:-1]
            key = int(key) if key.isdigit() else key.strip("'")
            try:
                cur = cur[key]
            except (KeyError, IndexError):
                return None
    return cur


def run_case(ctx, case):
    jedi = boot.jedi_boot()
    devs = []
    old = jedi.settings.allow_unsafe_interpreter_executions
    try:
        for safe in (True, False):
            ns, namespaces, cleanup = build(case)
            counts = ns["COUNTS"]
            jedi.settings.allow_unsafe_interpreter_executions = not safe
            try:
                with core.time_limit(200):
                    for expr in case["exprs"]:
                        for k in counts:
                            counts[k] = 0
                        results = 0
                        for method in ("complete", "infer", "goto", "help", "get_signatures"):
                            try:
                                it = jedi.Interpreter(expr, namespaces)
                                res = getattr(it, method)()
                                results += len(res)
                                for r in res[:5]:
                                    r.name, r.type, r.description
                                    r.docstring()
                            except Exception as e:
                                devs.append((api.bucket(e, "Interpreter." + method), api.tb_tail(e)))
                                continue
                            ctx.count()
                            if safe:
                                fired = sorted(k for k in COUNTED if counts[k])
                                if fired:
                                    kind = "findable-source" if case["findable"] else "no-source"
                                    devs.append(("safe-mode-executed:%s:%s" % ("+".join(fired), kind),
                                                 "%s(%r) features=%s ran %s" % (method, expr, case["features"], {k: counts[k] for k in fired})))
                                    for k in counts:
                                        counts[k] = 0
                        # dir coverage
                        if expr in ("obj.", "Cls.", "ns2obj.payload."):
                            target = reach(namespaces, expr)
                            if target is not None or expr == "Cls.":
                                if expr == "Cls.":
                                    target = namespaces[-1]["Cls"]
                                for k in counts:
                                    counts[k] = 0
                                want = set(dir(target))
                                got = {c.name for c in jedi.Interpreter(expr, namespaces).complete()}
                                miss = sorted(want - got)
                                if miss:
                                    devs.append(("completion-misses-dir-entries:%s" % ("safe" if safe else "unsafe"),
                                                 "%r features=%s missing %s" % (expr, case["features"], miss[:8])))
                                ctx.extra["dir_checks"] = ctx.extra.get("dir_checks", 0) + 1
                        # plain path -> type of the stored object
                        target = reach(namespaces, expr.rstrip("."))
                        if target is not None and expr.endswith(".") and "\n" not in expr:
                            code = expr.rstrip(".")
                            inf = jedi.Interpreter(code, namespaces).infer()
                            names = {n.name for n in inf}
                            tnames = {type(target).__name__}
                            if isinstance(target, type):
                                tnames.add(target.__name__)     # a class object: the class itself or its metaclass
                            tname = sorted(tnames)
                            if not (tnames & names):
                                devs.append(("infer-on-plain-path-wrong-class:%s" % ("safe" if safe else "unsafe"),
                                             "%r -> %s expected %s" % (code, sorted(names), tname)))
                            ctx.extra["path_checks"] = ctx.extra.get("path_checks", 0) + 1
                        special = set(case["features"]) & {"prop", "desc", "data_desc", "meta_prop", "getitem", "iter", "next", "call", "len", "bool", "base_prop"}
                        if special and results:
                            ctx.nontriv([case["features"], case["findable"], case["which"], expr, safe])
                        ctx.cls("safe" if safe else "unsafe", "findable" if case["findable"] else "exec-defined")
            finally:
                cleanup()
    finally:
        jedi.settings.allow_unsafe_interpreter_executions = old
    ctx.sample({"features": case["features"], "findable_source": case["findable"], "receiver": case["which"], "expressions": case["exprs"]}, limit=4)
    for sig, detail in devs:
        ctx.judge(sig, detail, case)


def shard(ctx):
    core.drive(ctx, cases(), lambda c: run_case(ctx, c), EXAMPLES[ctx.tier])


def replay(ctx, case):
    run_case(ctx, case)
