"""C12 — analysing sources with Script never executes them."""
import os
import sys
import py_compile
from pathlib import Path
from hypothesis import strategies as st
from .. import boot, core, api

ID = "C12"
LEVEL = "exploration"
BUDGET = {"quick": 150, "thorough": 1500}
EXAMPLES = {"quick": 55, "thorough": 1500}
RULE = ("cases = generated project trees in which EVERY Python file writes a sentinel file (named after the file and the "
        "executing pid) when executed; file names drawn adversarially: conftest.py, setup.py, sitecustomize.py, "
        "usercustomize.py, manage.py, a module and a package named after every entry of settings.auto_import_modules "
        "(gi), *.pth files with an import line, a sourceless .pyc compiled from a side-effecting source, __main__.py, "
        "buildout.cfg + bin/ scripts, test_*.py with fixtures, a zip archive with a non-UTF-8 member put on sys.path by the buffer, a file "
        "named like the Python twin of a C accelerator module (datetime/decimal/sqlite3/zoneinfo) queried through the accelerator's "
        "classes; x project options {default, explicit sys_path containing "
        "the project, added_sys_path, smart_sys_path on/off}; x buffers importing those files by every import form (with a "
        "path inside the project or none); x all Script query and refactoring methods + Project.search. Oracle: the "
        "sentinel directory stays empty (host or helper pid would be named), and the host's sys.path, sys.modules "
        "(project-located entries), cwd and os.environ are unchanged. A positive control per shard "
        "(load_unsafe_extensions=True + auto-import module) must produce a sentinel. Non-trivial: at least one query "
        "returned a definition located in a side-effecting project file; distinct = hash(tree, options, buffer).")
ASSUMPTIONS = ["import-time execution of any project .py/.pyc is observable through the sentinel it writes",
               "compiled extension modules (.so) are not generated (they cannot write a sentinel)", "vendored typeshed"]

BODY = '''import os as _vp_os
open(_vp_os.path.join({sdir!r}, {tag!r} + "." + str(_vp_os.getpid())), "w").close()
CONSTANT = 1
def function(first, second=2):
    return first
class Klass:
    attr = "x"
    def method(self):
        return self.attr
'''

SPECIAL = ["conftest", "setup", "sitecustomize", "usercustomize", "manage", "gi", "__main__", "plainmod", "helpers", "test_things"]


@st.composite
def cases(draw):
    mods = draw(st.lists(st.sampled_from(SPECIAL), min_size=2, max_size=6, unique=True))
    pkgs = draw(st.lists(st.sampled_from(["gi", "pkg", "site_pkg", "tests"]), min_size=0, max_size=2, unique=True))
    return {
        "mods": mods, "pkgs": pkgs,
        "pyc_only": draw(st.sampled_from([None, "plainmod", "gi", "helpers"])),
        "pth": draw(st.booleans()), "buildout": draw(st.booleans()),
        "option": draw(st.sampled_from(["default", "sys_path+project", "sys_path+project+env", "added", "not-smart", "added+not-smart"])),
        "script_in_project": draw(st.sampled_from(["inside", "inside-tests", "none"])),
        "forms": draw(st.lists(st.sampled_from(["import", "from", "star", "as", "relative", "attr"]), min_size=2, max_size=4, unique=True)),
        "unsafe": False,
        # a zip archive on the buffer's sys.path whose member is valid Python in a non-UTF-8 encoding (the helper's module
        # finder fails on it in an unusual way), and a project file named like the Python twin of a C accelerator whose
        # classes name it as their __module__ (_datetime.date.__module__ == "datetime")
        "zip": draw(st.booleans()),
        "twin": draw(st.sampled_from([None, "datetime", "decimal", "sqlite3", "zoneinfo"])),
        # where the project lies relative to the interpreter's own module search path: PYTHONPATH=~/src with the
        # untrusted clone at ~/src/clone ("below"), or at ~/src-fork ("beside": the name extends the entry as a string)
        "placement": draw(st.sampled_from([None, None, "below", "beside"])),
    }


def build_tree(root, sdir, case):
    files = []
    for m in case["mods"]:
        p = root / (m + ".py")
        p.write_text(BODY.format(sdir=str(sdir), tag=m) + ("\nimport pytest\n@pytest.fixture\ndef my_fixture():\n    return 1\n" if m == "conftest" else ""))
        files.append(m)
    for k in case["pkgs"]:
        d = root / k
        d.mkdir(exist_ok=True)
        (d / "__init__.py").write_text(BODY.format(sdir=str(sdir), tag=k + ".__init__"))
        (d / "sub.py").write_text(BODY.format(sdir=str(sdir), tag=k + ".sub"))
        (d / "conftest.py").write_text(BODY.format(sdir=str(sdir), tag=k + ".conftest"))
        files.append(k)
    if case["pyc_only"] and case["pyc_only"] in case["mods"]:
        src = root / (case["pyc_only"] + ".py")
        py_compile.compile(str(src), cfile=str(root / (case["pyc_only"] + ".pyc")), doraise=True)
        src.unlink()
    if case["pth"]:
        (root / "evil.pth").write_text("import os; open(os.path.join(%r, 'pth.' + str(os.getpid())), 'w').close()\n" % str(sdir))
    if case["buildout"]:
        (root / "buildout.cfg").write_text("[buildout]\nparts = x\n")
        (root / "bin").mkdir(exist_ok=True)
        (root / "bin" / "runner").write_text("#!/usr/bin/python\nimport sys\nsys.path[0:0] = [%r]\n%s" % (str(root / "eggs"), BODY.format(sdir=str(sdir), tag="bin.runner")))
    (root / "setup.cfg").write_text("[metadata]\nname = x\n")
    if case.get("zip"):
        import zipfile
        with zipfile.ZipFile(root / "vendor.zip", "w") as z:
            z.writestr("zmod.py", ("# -*- coding: latin-1 -*-\n" + BODY.format(sdir=str(sdir), tag="zip.zmod") + "NAME = 'caf\xe9'\n").encode("latin-1"))
            z.writestr("zplain.py", BODY.format(sdir=str(sdir), tag="zip.zplain"))
    if case.get("twin"):
        (root / (case["twin"] + ".py")).write_text(BODY.format(sdir=str(sdir), tag="twin." + case["twin"]) + "class date:\n    pass\n")
    return files


def buffers(case, files):
    out = []
    for name in files:
        for form in case["forms"]:
            if form == "import":
                out.append(("import %s\n%s.function(1)\n%s.Klass().method()\n%s." % (name, name, name, name), name))
            elif form == "from":
                out.append(("from %s import Klass, function\nKlass().attr\nfunction(" % name, name))
            elif form == "star":
                out.append(("from %s import *\nCONSTANT\nKlass." % name, name))
            elif form == "as":
                out.append(("import %s as aliased\naliased.CONSTANT\naliased.Kl" % name, name))
            elif form == "relative":
                out.append(("from . import %s\n%s.function\nfrom .%s import Klass\nKlass" % (name, name, name), name))
            else:
                out.append(("import %s\nvalue = %s.Klass()\nvalue.method().upper\ndef test_it(my_fixture, my_f):\n    my_fixture\n" % (name, name), name))
    if case.get("zip"):
        out.append(("import sys\nsys.path.insert(0, 'vendor.zip')\nimport zplain\nzplain.function\nimport zmod\nzmod.NAME\nzmod.", "zmod"))
    if case.get("twin"):
        acc = {"datetime": ("_datetime", "date", "today"), "decimal": ("_decimal", "Decimal", "sqrt"),
               "sqlite3": ("_sqlite3", "Connection", "cursor"), "zoneinfo": ("_zoneinfo", "ZoneInfo", "key")}[case["twin"]]
        out.append(("from %s import %s\n%s.%s\n%s." % (acc[0], acc[1], acc[1], acc[2], acc[1]), case["twin"]))
    return out


def host_state(root):
    mods = sorted(k for k, m in list(sys.modules.items())
                  if getattr(m, "__file__", None) and str(getattr(m, "__file__")).startswith(str(root)))
    return {"sys.path": list(sys.path), "cwd": os.getcwd(), "environ": dict(os.environ), "project_modules": mods}


def run_case(ctx, case):
    jedi = boot.jedi_boot()
    top = Path(os.path.realpath(boot.fresh_dir("c12")))
    placement = case.get("placement")
    env = None
    if placement:
        (top / "src").mkdir()
        root = top / "src" / "clone" if placement == "below" else top / "src-fork"
        if not (case.get("pyc_only") and case["pyc_only"] in case["mods"]):
            case = dict(case, pyc_only=case["mods"][0])     # a module that can only be loaded, not read
    else:
        root = top / "proj"
    root.mkdir()
    sdir = top / "sentinels"
    sdir.mkdir()
    files = build_tree(root, sdir, case)
    if placement:
        envv = dict(os.environ)
        envv["PYTHONPATH"] = str(top / "src")
        env = jedi.create_environment(boot.PY, safe=False, env_vars=envv)
    env_path = None
    opt = case["option"]
    kw = {}
    if opt == "sys_path+project":
        kw["sys_path"] = [str(root)]
    elif opt == "sys_path+project+env":
        kw["sys_path"] = [str(root)] + [p for p in jedi.get_default_environment().get_sys_path() if p]
    elif opt == "added":
        kw["added_sys_path"] = [str(root)]
    elif opt == "not-smart":
        kw["smart_sys_path"] = False
    elif opt == "added+not-smart":
        kw["added_sys_path"] = [str(root)]
        kw["smart_sys_path"] = False
    if case.get("unsafe"):
        kw["load_unsafe_extensions"] = True
    project = jedi.Project(str(root), **kw)
    before = host_state(root)
    located = 0
    devs = []

    def check(where, code=""):
        left = sorted(os.listdir(sdir))
        if left:
            who = {f.rsplit(".", 1)[-1] for f in left}
            side = "host" if str(os.getpid()) in who else "helper"
            if placement == "below" and side == "helper" and code.startswith("from . import"):
                # shape class of a pinned finding: the project directory is a namespace package of the interpreter's OWN
                # search path (PYTHONPATH=~/src, project ~/src/clone), the buffer's relative import names clone.<module>, and
                # the sourceless module is loaded through the interpreter's path, which jedi trusts by design
                devs.append(("project-code-executed:helper:project-is-namespace-package-of-interpreter-path:relative-import",
                             "%s -> sentinels %s (option %s)" % (where, left, opt)))
                for f in left:
                    os.unlink(sdir / f)
                return
            devs.append(("project-code-executed:%s:%s%s" % (side, opt, ":project-%s-interpreter-path" % placement if placement else ""), "%s -> sentinels %s (files %s)" % (where, left, case["mods"] + case["pkgs"])))
            for f in left:
                os.unlink(sdir / f)

    with core.time_limit(280):
        for code, name in buffers(case, files):
            if case["script_in_project"] == "inside":
                spath = str(root / "buffer_file.py")
            elif case["script_in_project"] == "inside-tests":
                (root / "tests").mkdir(exist_ok=True)
                spath = str(root / "tests" / "test_buffer.py")
            else:
                spath = None
            lines = code.split("\n")
            s = boot.fresh_script(code, path=spath, project=project, **({"environment": env} if env is not None else {}))
            ctx.count()
            positions = [(i + 1, len(l)) for i, l in enumerate(lines) if l.strip()]
            for line, col in positions:
                for m in ("complete", "infer", "goto", "help", "get_references", "get_signatures", "get_context"):
                    try:
                        res = getattr(s, m)(line, col)
                    except Exception:
                        continue      # crashes are C01's subject
                    objs = [res] if m == "get_context" else res
                    for o in objs[:6]:
                        try:
                            mp = o.module_path
                            if mp and str(mp).startswith(str(root)) and str(mp) != spath:
                                located += 1
                            o.docstring()
                            o.get_signatures()
                            o.infer()
                            o.goto(follow_imports=True)
                        except Exception:
                            pass
                    check("%s at %s of %r" % (m, (line, col), code[:40]), code)
            for m, kwargs in (("get_names", {"all_scopes": True}), ("get_syntax_errors", {})):
                try:
                    getattr(s, m)(**kwargs)
                except Exception:
                    pass
            try:
                list(s.search(name))
                list(s.complete_search(name[:2]))
            except Exception:
                pass
            check("names/search of %r" % code[:40], code)
            line, col = positions[0][0], max(0, positions[0][1] - 1)
            for m, kwargs in (("rename", {"new_name": "renamed_xyz"}), ("inline", {}),
                              ("extract_variable", {"new_name": "extracted_v"}), ("extract_function", {"new_name": "extracted_f"})):
                try:
                    r = getattr(s, m)(line, col, **kwargs)
                    r.get_diff()
                    r.get_changed_files()
                except Exception:
                    pass
            check("refactorings on %r" % code[:40], code)
        try:
            list(project.search("Klass"))
            list(project.complete_search("func"))
            list(project.search("gi"))
        except Exception:
            pass
        check("Project.search")
        try:
            jedi.get_default_project(str(root / "buffer_file.py"))
        except Exception:
            pass
        check("get_default_project")
    after = host_state(root)
    for k in before:
        if before[k] != after[k]:
            if k == "environ":
                diff = {x for x in set(before[k]) | set(after[k]) if before[k].get(x) != after[k].get(x)}
            elif isinstance(before[k], list):
                diff = [x for x in after[k] if x not in before[k]] + [x for x in before[k] if x not in after[k]]
            else:
                diff = (before[k], after[k])
            devs.append(("host-state-changed:" + k, "%s" % (diff,)))
    ctx.cls("option:" + opt, "script:" + case["script_in_project"], "placement:%s" % placement)
    if env is not None:
        sub = getattr(env, "_subprocess", None)
        del env, s
        if sub is not None:
            try:
                sub._cleanup_callable()
            except Exception:
                pass
    for f in files:
        ctx.cls("file:" + f)
    if located:
        ctx.nontriv(case)
    ctx.extra["definitions_located_in_project_files"] = ctx.extra.get("definitions_located_in_project_files", 0) + located
    ctx.sample({"case": case, "definitions_located_in_side_effecting_files": located}, limit=3)
    for sig, detail in devs:
        ctx.judge(sig, detail, case)
    return devs


def positive_control(ctx):
    """load_unsafe_extensions=True with an auto-import module on an explicit sys.path MUST execute it: shows that the
    sentinel detector works in this sandbox."""
    case = {"mods": ["gi", "plainmod"], "pkgs": [], "pyc_only": None, "pth": False, "buildout": False,
            "option": "sys_path+project", "script_in_project": "inside", "forms": ["import"], "unsafe": True}
    probe = core.Ctx(ctx.pid, ctx.seed, ctx.shard, ctx.nshards, ctx.tier)
    probe.replaying = True
    run_case(probe, case)
    fired = [v for v in probe.violations if v["sig"].startswith("project-code-executed")]
    ctx.extra["positive_control_fired"] = ctx.extra.get("positive_control_fired", 0) + (1 if fired else 0)
    if not fired:
        ctx.harness_errors.append("C12 positive control did not fire: the sentinel detector is blind")


def shard(ctx):
    if ctx.shard % 4 == 0:
        positive_control(ctx)
    core.drive(ctx, cases(), lambda c: run_case(ctx, c), EXAMPLES[ctx.tier])


def replay(ctx, case):
    run_case(ctx, case)
