"""C19 — project search finds every definition and honours ignore rules."""
import os
import ast
from pathlib import Path
from hypothesis import strategies as st
from .. import boot, core, api
from ..oracles import pyfront

ID = "C19"
LEVEL = "exploration"
BUDGET = {"quick": 150, "thorough": 1500}
EXAMPLES = {"quick": 170, "thorough": 2500}
RULE = ("cases = generated project trees (<=24 files, depth<=3, regular/namespace packages) whose files contain only "
        "definitions (def/async def/class/assignment/annotated assignment, nested ones, parameters), imports, comments "
        "and strings over a small name pool with case variants and prefix-related names; ignored places: venv/.venv/"
        ".tox/.mypy_cache/__pycache__ at any depth and .gitignore files at several levels with anchored ('/a/b', "
        "'a/b/'), bare-name and file entries. Per tree 6 queries over {search, complete_search} x {all_scopes}. "
        "Oracle = inventory from ast (binding tokens, minus import-bound names) and the directory walk: every "
        "non-ignored definition spelled as searched is reported, nothing from an ignored place is, every reported "
        "definition inside the tree is a real binding token with that name (case-insensitively), modules/packages so "
        "named are reported; Script.search agrees with filtering get_names. Non-trivial: the name is defined in >=2 "
        "files, or also occurs in an ignored place, a comment or a string; distinct = hash(tree, query).")
ASSUMPTIONS = ["CPython ast as definition inventory", "trees stay below the documented limits (30 parsed files)",
               "results outside the project directory (sys.path part of the search) are ignored",
               ".gitignore patterns restricted to the subset jedi documents (no '*', no '!')"]

NAMES = ["target", "Target", "target_two", "helper", "Wídget", "widget_x", "TARGET"]
IGN = ["venv", ".venv", ".tox", ".mypy_cache", "__pycache__"]


@st.composite
def file_body(draw):
    lines = []
    for _ in range(draw(st.integers(1, 5))):
        n = draw(st.sampled_from(NAMES))
        k = draw(st.sampled_from(["def", "async", "class", "assign", "ann", "nested", "comment", "string", "import", "param", "local"]))
        if k == "def":
            lines += ["def %s():" % n, "    pass"]
        elif k == "async":
            lines += ["async def %s():" % n, "    pass"]
        elif k == "class":
            lines += ["class %s:" % n, "    pass"]
        elif k == "assign":
            lines += ["%s = 1" % n]
        elif k == "ann":
            lines += ["%s: int = 2" % n]
        elif k == "nested":
            m = draw(st.sampled_from(NAMES))
            lines += ["class Holder%d:" % len(lines), "    %s = 3" % n, "    def %s(self):" % m, "        class %s:" % n, "            pass"]
        elif k == "comment":
            lines += ["# %s is mentioned here" % n]
        elif k == "string":
            lines += ["doc%d = 'see %s for details'" % (len(lines), n)]
        elif k == "import":
            lines += ["from somewhere_else import %s" % n]
        elif k == "param":
            lines += ["def func%d(%s=None):" % (len(lines), n), "    return %s" % n]
        else:
            lines += ["def func%d():" % len(lines), "    %s = 5" % n, "    return %s" % n]
    return "\n".join(lines) + "\n"


@st.composite
def trees(draw):
    files = {}
    dirs = set()
    gitignores = {}

    def fill(prefix, depth):
        for i in range(draw(st.integers(1, 3))):
            if len(files) >= 22:
                return
            base = draw(st.sampled_from(["mod_a", "mod_b", "target", "helper", "thing", "Target"]))
            ext = draw(st.sampled_from([".py", ".py", ".py", ".pyi"]))
            files["%s%s%s" % (prefix, base, ext)] = draw(file_body())
        if depth < 3:
            for i in range(draw(st.integers(0, 2))):
                dn = draw(st.sampled_from(["pkg", "sub", "skipme", "target", "build"] + IGN))
                d = "%s%s/" % (prefix, dn)
                if d in dirs:
                    continue
                dirs.add(d)
                if draw(st.booleans()) and dn not in IGN:
                    files[d + "__init__.py"] = draw(file_body())
                fill(d, depth + 1)
    fill("", 0)
    # .gitignore files
    alld = sorted(dirs)
    for _ in range(draw(st.integers(0, 3))):
        where = draw(st.sampled_from(["", ""] + alld)) if alld else ""
        below = [d for d in alld if d.startswith(where) and d != where]
        entries = []
        for _ in range(draw(st.integers(1, 3))):
            kind = draw(st.sampled_from(["anchored", "anchored-slash", "bare", "file-anchored", "file-bare", "comment", "missing"]))
            if kind in ("anchored", "anchored-slash") and below:
                d = draw(st.sampled_from(below))[len(where):].rstrip("/")
                if "/" not in d:
                    d = "/" + d
                elif draw(st.booleans()):
                    d = "/" + d
                entries.append(d + ("/" if kind == "anchored-slash" else ""))
            elif kind == "bare" and below:
                # prefer directories that are not direct children of the .gitignore's directory: a bare entry (with or
                # without a trailing slash) applies at every level below, which is what distinguishes it from an anchored one
                deep = [d for d in below if d[len(where):].rstrip("/").count("/") >= 1]
                pick = draw(st.sampled_from(deep)) if deep and draw(st.integers(0, 3)) else draw(st.sampled_from(below))
                entries.append(pick.rstrip("/").split("/")[-1] + draw(st.sampled_from(["", "/"])))
            elif kind == "file-anchored":
                fs = [f for f in files if f.startswith(where) and "/" not in f[len(where):] and not f.endswith("__init__.py")]
                if fs:
                    entries.append("/" + draw(st.sampled_from(sorted(fs)))[len(where):])
            elif kind == "file-bare":
                fs = [f for f in files if f.startswith(where) and not f.endswith("__init__.py")]
                if fs:
                    entries.append(draw(st.sampled_from(sorted(fs))).split("/")[-1])
            elif kind == "comment":
                entries.append("# " + draw(st.sampled_from(["skipme", "pkg"])))
            else:
                entries.append("no_such_dir")
        if entries:
            gitignores[where + ".gitignore"] = "\n".join(entries) + "\n"
    queries = []
    for _ in range(6):
        n = draw(st.sampled_from(NAMES + ["thing", "mod_a", "pkg"]))
        complete = draw(st.booleans())
        if complete:
            n = n[:draw(st.integers(1, len(n)))]
        queries.append({"string": n, "complete": complete, "all_scopes": draw(st.booleans())})
    return {"files": files, "dirs": sorted(dirs), "gitignores": gitignores, "queries": queries}


def ignored_paths(case):
    """(ignored directory prefixes, ignored files) as git + jedi's documented folder list would see them."""
    ign_dirs, ign_files = set(), set()
    for d in case["dirs"]:
        if d.rstrip("/").split("/")[-1] in IGN:
            ign_dirs.add(d)
    for gi, text in case["gitignores"].items():
        where = gi[:-len(".gitignore")]
        for line in text.splitlines():
            if not line or line.startswith("#"):
                continue
            p = line.rstrip("/")
            if "/" in p:
                target = where + p.lstrip("/")
                if target + "/" in case["dirs"]:
                    ign_dirs.add(target + "/")
                if target in case["files"]:
                    ign_files.add(target)
            else:
                for d in case["dirs"]:
                    if d.startswith(where) and d != where and d.rstrip("/").split("/")[-1] == p:
                        ign_dirs.add(d)
                for f in case["files"]:
                    if f.startswith(where) and f.split("/")[-1] == p:
                        ign_files.add(f)
    return ign_dirs, ign_files


def inventory(text):
    """[(name, line, col, top_level)] of binding tokens that are not import-bound."""
    src = pyfront.lf(text)
    tree = ast.parse(src)
    binds = pyfront.binding_positions(text)
    import_lines = {n.lineno for n in ast.walk(tree) if isinstance(n, (ast.Import, ast.ImportFrom))}
    toks = {(l, c): s for l, c, s in pyfront.name_tokens(text)}
    # top-level = not inside any def/class
    inner = []
    for n in ast.walk(tree):
        if isinstance(n, (ast.FunctionDef, ast.AsyncFunctionDef, ast.ClassDef)):
            inner.append((n.lineno, n.end_lineno, n.name))
    defname = {pos for pos in pyfront.definition_ranges(text) if False}
    import tokenize as _tk
    nt = [t for t in pyfront.tokens(text) if t.type == _tk.NAME]
    defname = {nt[i + 1].start: nt[i + 1].string for i, t in enumerate(nt[:-1]) if t.string in ("def", "class")}
    out = []
    for (l, c) in sorted(binds):
        if l in import_lines or (l, c) not in toks:
            continue
        # the name of a def/class belongs to the enclosing scope, everything else on/below its line to the def/class
        enclosing = [r for r in inner if r[0] <= l <= r[1] and not (r[0] == l and defname.get((l, c)) == r[2])]
        out.append((toks[(l, c)], l, c, not enclosing))
    return out


def run_case(ctx, case):
    jedi = boot.jedi_boot()
    root = Path(os.path.realpath(boot.fresh_dir("c19"))) / "proj"
    root.mkdir()
    for d in case["dirs"]:
        (root / d).mkdir(parents=True, exist_ok=True)
    for rel, text in list(case["files"].items()) + list(case["gitignores"].items()):
        p = root / rel
        p.parent.mkdir(parents=True, exist_ok=True)
        p.write_text(text, encoding="utf-8")
    ign_dirs, ign_files = ignored_paths(case)

    def is_ignored(rel):
        return rel in ign_files or any(rel.startswith(d) for d in ign_dirs)

    inv = {rel: inventory(text) for rel, text in case["files"].items()}
    project = jedi.Project(str(root))
    devs = []
    with core.time_limit(240):
        for q in case["queries"]:
            s, complete, all_scopes = q["string"], q["complete"], q["all_scopes"]
            try:
                it = project.complete_search(s, all_scopes=all_scopes) if complete else project.search(s, all_scopes=all_scopes)
                res = list(it)
            except Exception as e:
                devs.append((api.bucket(e, "search"), api.tb_tail(e)))
                continue
            ctx.count()
            got_defs = set()
            got_mods = set()
            for n in res:
                mp = n.module_path
                if mp is None or not str(mp).startswith(str(root) + os.sep):
                    continue
                rel = str(Path(mp).relative_to(root))
                if n.type in ("module", "namespace") and n.line in (None, 1) and n.column in (None, 0):
                    got_mods.add(rel)
                    twin_ = str(Path(rel).with_suffix(".pyi" if rel.endswith(".py") else ".py"))
                    if is_ignored(rel) and not (twin_ in case["files"] and not is_ignored(twin_)):   # stub + module = one module
                        devs.append(("module-reported-from-ignored-place", "%r -> %s" % (s, rel)))
                    continue
                got_defs.add((rel, n.name, n.line, n.column))
                if is_ignored(rel):
                    shape = "gitignore-file-entry" if rel in ign_files else "ignored-directory"
                    devs.append(("definition-reported-from-ignored-place:" + shape, "%r -> %s:%s %r" % (s, rel, n.line, n.name)))
                names_here = {(nm, l, c) for nm, l, c, top in inv.get(rel, [])}
                if (n.name, n.line, n.column) not in names_here:
                    devs.append(("reported-definition-is-not-a-binding-token", "%r -> %s:%s:%s %r (%s)" % (s, rel, n.line, n.column, n.name, n.type)))
                elif complete and not n.name.lower().startswith(s.lower()):
                    devs.append(("completion-does-not-extend-prefix", "%r -> %r" % (s, n.name)))
                elif not complete and n.name.lower() != s.lower():
                    devs.append(("reported-name-differs-from-search", "%r -> %r" % (s, n.name)))
                if complete and getattr(n, "complete", None) != n.name[len(s):]:
                    devs.append(("complete-is-not-missing-suffix", "%r -> %r complete=%r" % (s, n.name, getattr(n, "complete", None))))
            # completeness
            required = set()
            files_with_word = 0
            occurs_elsewhere = False
            for rel, text in case["files"].items():
                if s in text:
                    files_with_word += 1
                if is_ignored(rel):
                    if s in text:
                        occurs_elsewhere = True
                    continue
                for nm, l, c, top in inv[rel]:
                    ok = nm.startswith(s) if complete else nm == s
                    if ok and (top or all_scopes):
                        required.add((rel, nm, l, c))
                if ("# %s" % s) in text or ("see %s" % s) in text:
                    occurs_elsewhere = True
            missing = sorted(required - got_defs)
            if missing and files_with_word <= 28:
                devs.append(("definition-not-found:%s%s" % ("complete" if complete else "search", ":all_scopes" if all_scopes else ""),
                             "%r missing %s" % (s, missing[:4])))
            if not complete:
                for rel in case["files"]:
                    twin = str(Path(rel).with_suffix(".pyi" if rel.endswith(".py") else ".py"))
                    if Path(rel).stem == s and Path(rel).name != "__init__.py" and not is_ignored(rel) and rel not in got_mods \
                            and not (twin in got_mods and twin in case["files"]):   # a stub and its module are one module
                        # a module x.py next to a package x/ is shadowed for dotted-name purposes; both spellings are files "so named"
                        devs.append(("module-so-named-not-found", "%r missing module %s (got %s)" % (s, rel, sorted(got_mods))))
            ctx.cls("complete" if complete else "search", "all_scopes" if all_scopes else "top-level")
            if len({r[0] for r in required}) >= 2 or occurs_elsewhere:
                ctx.nontriv([case["files"], case["gitignores"], q])
            if ign_dirs or ign_files:
                ctx.cls("has-ignored-place")
            for gi, gtext in case["gitignores"].items():
                w_ = gi[:-len(".gitignore")]
                for ln in gtext.splitlines():
                    if ln and not ln.startswith("#") and "/" not in ln.rstrip("/"):
                        if any(d.startswith(w_) and d[len(w_):].rstrip("/").count("/") >= 1
                               and d.rstrip("/").split("/")[-1] == ln.rstrip("/") and any(f.startswith(d) and s in t for f, t in case["files"].items())
                               for d in ign_dirs):
                            ctx.cls("bare-entry%s-ignores-deeper-dir-holding-the-word" % ("-with-slash" if ln.endswith("/") else ""))
        # Script.search agrees with filtering get_names
        for rel, text in list(case["files"].items())[:3]:
            sc = boot.fresh_script(text, path=str(root / rel), project=project)
            for b in (False, True):
                n0 = case["queries"][0]["string"]
                a = sorted((x.name, x.line, x.column) for x in sc.search(n0, all_scopes=b))
                w = sorted((x.name, x.line, x.column) for x in sc.get_names(all_scopes=b) if x.name.lower() == n0.lower() and x.type not in ("module", "namespace"))
                a = [t for t in a if t[1] is not None and (t[0].lower() == n0.lower())]
                a_in_buffer = [t for t in a if True]
                if sorted(set(a_in_buffer)) != sorted(set(w)) and not set(w) <= set(a_in_buffer):
                    devs.append(("script-search-misses-get_names-entry", "%s %r all_scopes=%s search=%s get_names=%s" % (rel, n0, b, a, w)))
    ctx.sample({"files": sorted(case["files"]), "gitignores": case["gitignores"], "ignored_dirs": sorted(ign_dirs),
                "ignored_files": sorted(ign_files), "queries": case["queries"][:3]}, limit=3)
    for sig, detail in devs:
        ctx.judge(sig, detail, case)


def shard(ctx):
    core.drive(ctx, trees(), lambda c: run_case(ctx, c), EXAMPLES[ctx.tier])


def replay(ctx, case):
    run_case(ctx, case)
