"""C07 — refactoring results are self-consistent and touch nothing until applied."""
import io
import os
import re
import tokenize
from pathlib import Path
from hypothesis import strategies as st
from .. import boot, core, api, proggen, tracer, refac, corpus

ID = "C07"
LEVEL = "exploration"
BUDGET = {"quick": 150, "thorough": 1600}
EXAMPLES = {"quick": 260, "thorough": 3500}
RULE = ("cases = (a) generated programs (vlib.proggen, single/multi-module) whose main file is put through layout "
        "mutators (CRLF / CR line ends, no final newline, tab indentation, a comment or blank line before and a trailing "
        "comment after statements, non-ASCII identifiers) and (b) a package-layout family (package, sibling package "
        "whose name extends the first one's, modules importing them) for module/package renames; x {rename at 4 "
        "identifiers, inline at 2 variables, extract_variable / extract_function at 3 ast-aligned expressions, each "
        "also at an out-of-range position} x {inspect only, apply}. Oracle: own unified-diff parser/applier "
        "(get_diff applied to the original == get_new_code modulo the documented final-newline normalisation, hunk "
        "counts add up), paths in the diff == get_changed_files() + get_renames() == what changes on disk, recursive "
        "byte snapshots of the project (nothing changes before apply(), exactly the announced state after), blank/"
        "comment-only lines and trailing comments of replaced lines reappear, line-end style of replaced lines and a "
        "missing final newline are kept, failures are RefactoringError (ValueError out of range) only. Non-trivial: "
        "not refused and (non-LF line ends, or no final newline, or a comment adjacent to a rewritten line, or >=2 "
        "files changed / a rename announced); distinct = hash(files, refactoring, position).")
ASSUMPTIONS = ["the unified-diff applier in vlib/refac.py is the reference for 'the diff transforms the original into the new code'",
               "line model = parso.split_lines (\\n, \\r\\n, \\r)", "the line that extract_* inserts is new text (its line end is not judged)"]

NEW = "renamed_c07_zz"


@st.composite
def cases(draw):
    if draw(st.integers(0, 3)) == 0:
        a = draw(st.sampled_from(["pkg", "lib", "core"]))
        b = a + draw(st.sampled_from(["2", "_extra", "x"]))
        files = {
            a + "/__init__.py": "from %s.inner import VALUE\n" % a,
            a + "/inner.py": "VALUE = 1\n\n\ndef helper(first):\n    return first\n",
            b + "/__init__.py": "",
            b + "/user.py": "import %s\nimport %s.inner\nfrom %s import inner\nfrom %s.inner import helper\nresult = %s.inner.VALUE\nprint(helper(result), inner.VALUE)\n" % (a, a, a, a, a),
            "main_mod.py": "import %s\nimport %s.user\nprint(%s.VALUE)\n" % (a, b, a),
        }
        kind = "packages"
        target_file = draw(st.sampled_from([b + "/user.py", "main_mod.py", a + "/__init__.py"]))
    else:
        prog = draw(proggen.programs(max_blocks=4))
        files = prog.files()
        kind = "generated"
        target_file = "main_mod.py"
    muts = draw(st.lists(st.sampled_from(["crlf", "cr", "no_final_nl", "tabs", "comments", "blank_before", "header", "none"]), min_size=0, max_size=3, unique=True))
    picks = draw(st.lists(st.integers(0, 10 ** 6), min_size=16, max_size=16))
    return {"kind": kind, "files": files, "target": target_file, "muts": muts, "picks": picks, "apply": draw(st.booleans()),
            # an unsaved buffer (path=None) inside the project: results then hold None next to real paths
            "no_path": draw(st.integers(0, 3)) == 0}


def mutate_layout(text, muts, seed):
    lines = text.split("\n")
    if "comments" in muts:
        out = []
        for i, l in enumerate(lines):
            if l.strip() and not l.rstrip().endswith((":", ",", "(", "\\")) and (i + seed) % 3 == 0 and '"""' not in l and "'''" not in l:
                l = l + "  # note %d" % i
            out.append(l)
        lines = out
    if "blank_before" in muts:
        out = []
        for i, l in enumerate(lines):
            if l and not l[0].isspace() and re.match(r"(pv_|\w+ = |def |class )", l) and (i + seed) % 4 == 0 and i > 0 and not lines[i - 1].startswith("@"):
                out.append("# about the next line %d" % i)
                if (i + seed) % 8 == 0:
                    out.append("")
            out.append(l)
        lines = out
    text = "\n".join(lines)
    if "header" in muts:
        text = ["#!/usr/bin/env python3\n# -*- coding: utf-8 -*-\n\n", "\n\n# header comment\n", "   \n# note\n"][seed % 3] + text
    if "tabs" in muts:
        text = re.sub(r"(?m)^((?:    )+)", lambda m: "\t" * (len(m.group(1)) // 4), text)
    if "no_final_nl" in muts:
        text = text.rstrip("\n")
    if "crlf" in muts:
        text = text.replace("\n", "\r\n")
    elif "cr" in muts:
        text = text.replace("\n", "\r")
    return text


def comment_of(line):
    try:
        for t in tokenize.generate_tokens(io.StringIO(line.rstrip("\r\n") + "\n").readline):
            if t.type == tokenize.COMMENT:
                return t.string
    except (tokenize.TokenError, IndentationError, SyntaxError):
        m = re.search(r"#.*$", line.rstrip("\r\n"))
        return m.group(0) if m else None
    return None


def eol_of(line):
    return line[len(line.rstrip("\r\n")):]


def run_case(ctx, case):
    jedi = boot.jedi_boot()
    top = Path(os.path.realpath(boot.fresh_dir("c07")))
    root = top / "proj"
    root.mkdir()
    files = dict(case["files"])
    tgt = case["target"]
    files[tgt] = mutate_layout(files[tgt], case["muts"], case["picks"][0])
    for rel, text in files.items():
        p = root / rel
        p.parent.mkdir(parents=True, exist_ok=True)
        with open(p, "w", encoding="utf-8", newline="") as f:
            f.write(text)
    text = files[tgt]
    path = root / tgt
    try:
        compile(text, tgt, "exec", dont_inherit=True)
    except (SyntaxError, ValueError):
        ctx.discard("layout mutation broke the file")
        return
    project = jedi.Project(str(root))
    picks = list(case["picks"]) * 6
    lines = corpus.split_lines(text)
    idents = [(m.start(), m.group(0)) for m in re.finditer(r"[^\W\d]\w{2,}", text) if not re.match(r"(print|import|from|def|class|return|self|None|True|False|lambda|for|pass|yield|with|not|and|else|elif|while|try|except|isinstance|len|list|next|super|functools|property|staticmethod|classmethod|wraps|note|about|the|line)$", m.group(0))]
    try:
        exprs = [e for e in refac.expression_ranges(text) if e[4]["value"]]
    except Exception:
        exprs = []

    def pos_of(off):
        pre = text[:off]
        pl = corpus.split_lines(pre)
        return len(pl), len(pl[-1])

    ops = []
    for _ in range(4):
        if idents:
            off, name = idents[picks.pop() % len(idents)]
            l, c = pos_of(off)
            ops.append(("rename", (l, c + 1), dict(new_name=NEW), name))
    assigns = [m.start() for m in re.finditer(r"(?m)^(pv_\w+|result|VALUE) = ", text)]
    for _ in range(2):
        if assigns:
            l, c = pos_of(assigns[picks.pop() % len(assigns)])
            ops.append(("inline", (l, c + 1), {}, "assign"))
    for _ in range(3):
        if exprs:
            l, c, el, ec, info = exprs[picks.pop() % len(exprs)]
            ops.append(("extract_variable", (l, c), dict(new_name=NEW, until_line=el, until_column=ec), info["kind"]))
            ops.append(("extract_function", (l, c), dict(new_name=NEW, until_line=el, until_column=ec), info["kind"]))
    # arbitrary in-range (pos, until) pairs: the exception contract holds for every selection
    for _ in range(4):
        l = 1 + picks.pop() % len(lines)
        ln = lines[l - 1].rstrip("\r\n")
        c = picks.pop() % (len(ln) + 1)
        el = min(len(lines), l + picks.pop() % 3)
        eln = lines[el - 1].rstrip("\r\n")
        ec = picks.pop() % (len(eln) + 1)
        if (el, ec) > (l, c):
            for m in ("extract_variable", "extract_function"):
                ops.append((m, (l, c), dict(new_name=NEW, until_line=el, until_column=ec), "arbitrary-range"))
    for (l, c, el, ec) in [(1, 0, 1, min(2, len(lines[0].rstrip("\r\n")))), (1, 0, 2, 0)] if len(lines) > 2 else []:
        for m in ("extract_variable", "extract_function"):
            ops.append((m, (l, c), dict(new_name=NEW, until_line=el, until_column=ec), "arbitrary-range-at-file-start"))
    # out-of-range positions: ValueError and nothing else
    for m in ("rename", "inline", "extract_variable", "extract_function"):
        kw = dict(new_name=NEW) if m != "inline" else {}
        ops.append((m, (len(lines) + 2, 0), kw, "out-of-range"))
        ops.append((m, (1, len(lines[0]) + 5), kw, "out-of-range"))

    devs = []
    applied = False
    with core.time_limit(280):
        for opname, (l, c), kw, what in ops:
            if applied:
                break
            before = refac.snapshot(root)
            where = "%s at (%d,%d) %s in %s %s" % (opname, l, c, what, tgt, case["muts"])
            ctx.count()
            try:
                s = boot.fresh_script(text, path=None if case.get("no_path") else str(path), project=project)
                r = getattr(s, opname)(l, c, **kw)
                diff = r.get_diff()
                changed = r.get_changed_files()
                renames = list(r.get_renames())
                new_codes = {p: cf.get_new_code() for p, cf in changed.items()}
            except jedi.RefactoringError:
                ctx.cls("refused:" + opname)
                if what == "out-of-range":
                    devs.append(("out-of-range-position-not-ValueError:" + opname, where + " raised RefactoringError"))
                continue
            except ValueError as e:
                if what == "out-of-range":
                    ctx.cls("out-of-range-ValueError")
                    continue
                devs.append(("exception:%s:%s" % (opname, api.bucket(e, opname)), where + " " + api.tb_tail(e, 4)))
                continue
            except Exception as e:
                devs.append(("exception:%s:%s" % (opname, api.bucket(e, opname)), where + " " + api.tb_tail(e, 4)))
                continue
            if what == "out-of-range":
                devs.append(("out-of-range-position-accepted:" + opname, where))
                continue
            ctx.cls("done:" + opname)
            # nothing on disk changed by inspecting
            if refac.snapshot(root) != before:
                devs.append(("disk-changed-before-apply:" + opname, where))
                break
            # diff is well formed and transforms originals into new code
            try:
                d_renames, d_files = refac.parse_unified(diff)
            except refac.DiffError as e:
                devs.append(("diff-not-well-formed:" + opname, where + " %s" % e))
                continue
            rel = lambda p: "" if p is None else str(Path(p).relative_to(root)) if str(p).startswith(str(root)) else str(p)
            want_files = sorted(rel(p) for p in changed)
            got_files = sorted(f["from"] for f in d_files)
            if want_files != got_files:
                devs.append(("diff-files-differ-from-changed-files:" + opname, where + " diff=%s changed=%s" % (got_files, want_files)))
            want_ren = sorted((rel(a), rel(b)) for a, b in renames)
            if sorted(d_renames) != want_ren:
                devs.append(("diff-renames-differ-from-get_renames:" + opname, where + " diff=%s api=%s" % (d_renames, want_ren)))
            # the +++ side must name where the file will really be after apply()
            for f in d_files:
                expect_to = f["from"]
                for a, b in want_ren:
                    if expect_to == a or expect_to.startswith(a + "/"):
                        expect_to = b + expect_to[len(a):]
                if f["to"] != expect_to:
                    devs.append(("diff-names-wrong-target-file:" + opname, where + " --- %s +++ %s, after apply it is %s" % (f["from"], f["to"], expect_to)))
            for p, new_code in new_codes.items():
                orig = (root / rel(p)).read_bytes().decode("utf-8") if p is not None else text
                if str(p) == str(path):
                    orig = text
                hunks = [f for f in d_files if f["from"] == rel(p)]
                try:
                    got = refac.apply_hunks(orig, hunks[0]["hunks"] if hunks else [])
                except refac.DiffError as e:
                    devs.append(("diff-does-not-apply:" + opname, where + " %s" % e))
                    continue
                if got != refac.normalise_final_newline(new_code):
                    devs.append(("diff-applied-differs-from-new-code:" + opname, where + " file %s" % rel(p)))
                # preservation of text outside the rewritten nodes
                for hk in (hunks[0]["hunks"] if hunks and not what.startswith("arbitrary") else []):
                    minus = [h[1:] for h in hk[4] if h.startswith("-")]
                    plus = [h[1:] for h in hk[4] if h.startswith("+")]
                    for ml in minus:
                        bare = ml.strip()
                        if bare == "" or bare.startswith("#"):
                            if ml not in plus and not (opname == "inline" and False):
                                devs.append(("blank-or-comment-line-lost:" + opname, where + " lost line %r" % ml[:50]))
                        else:
                            cm = comment_of(ml)
                            if cm and not any(cm in pl for pl in plus) and not (opname == "inline" and re.match(r"\s*(pv_\w+|result|VALUE) = ", ml)):
                                devs.append(("trailing-comment-lost:" + opname, where + " lost %r" % cm))
                    if len(minus) == len(plus):
                        for ml, pl in zip(minus, plus):
                            if eol_of(ml) != eol_of(pl) and not (ml is minus[-1] and not orig.endswith(("\n", "\r"))):
                                devs.append(("line-ending-changed:" + opname, where + " %r -> %r" % (eol_of(ml), eol_of(pl))))
                                break
                if not orig.endswith(("\n", "\r")) and new_code.endswith(("\n", "\r")) and opname in ("rename",):
                    devs.append(("final-newline-added:" + opname, where))
            nontriv = ("\r" in text or not text.endswith("\n") or "#" in text or len(changed) >= 2 or renames)
            if nontriv:
                ctx.nontriv([files, opname, l, c])
            # apply
            outside = [str(p_) for p_ in list(changed) + [a_ for a_, _ in renames] + [b_ for _, b_ in renames]
                       if p_ is not None and not str(p_).startswith(str(root) + os.sep)]
            if outside:
                # harness safety: a refactoring that reaches files outside the scratch project (a renamed stdlib module
                # would be moved for real) is inspected but never applied
                ctx.cls("not-applied:touches-files-outside-the-scratch-project")
            elif None in changed:
                # apply() refuses path-less buffers with RefactoringError by design
                ctx.cls("not-applied:path-less-buffer-among-the-changed-files")
            elif case["apply"] and picks.pop() % 3 == 0:
                expected = dict(before)
                for p, new_code in new_codes.items():
                    expected[rel(p)] = new_code.encode("utf-8")
                for a, b in want_ren:
                    for k in [k for k in list(expected) if k == a or k.startswith(a + "/") or k == a + "/"]:
                        expected[b + k[len(a):]] = expected.pop(k)
                try:
                    r.apply()
                except Exception as e:
                    devs.append(("exception:apply:%s" % api.bucket(e, "apply"), where + " " + api.tb_tail(e, 4)))
                    break
                after = refac.snapshot(root)
                applied = True
                ctx.cls("applied:" + opname)
                if after != expected:
                    bad = sorted(k for k in set(after) | set(expected) if after.get(k) != expected.get(k))
                    devs.append(("disk-after-apply-differs-from-announcement:" + opname, where + " differing %s" % bad[:5]))
    ctx.cls("kind:" + case["kind"], "buffer:" + ("path-less" if case.get("no_path") else "with-path"))
    for m_ in case["muts"] or ["plain"]:
        ctx.cls("layout:" + m_)
    ctx.sample({"kind": case["kind"], "target": tgt, "layout": case["muts"], "operations": [(o[0], o[1], o[3]) for o in ops[:6]]}, limit=3)
    for sig, detail in devs:
        ctx.judge(sig, detail, case)


def shard(ctx):
    core.drive(ctx, cases(), lambda c: run_case(ctx, c), EXAMPLES[ctx.tier])


def replay(ctx, case):
    run_case(ctx, case)
