"""C08 — answers do not depend on the editing history of a buffer."""
import re
import shutil
from hypothesis import strategies as st
from .. import boot, core, corpus, api, proggen
from ..oracles import pyfront

ID = "C08"
LEVEL = "exploration"
BUDGET = {"quick": 160, "thorough": 1600}
EXAMPLES = {"quick": 9, "thorough": 190}
RULE = ("cases = edit histories of 1..30 steps over a frozen-corpus window or a generated program: insert / delete / "
        "replace / duplicate a line, insert or delete characters inside a token, indent / dedent a block, paste a "
        "block copied from elsewhere, undo (restore an earlier text), switch between two buffer paths, change the "
        "parameter list of a def that is called further down; after every step a NEW Script (same path, or none) in "
        "the long-lived process answers 3 sampled queries (infer/goto/complete/get_signatures/get_references/"
        "get_names; get_signatures right after a def edit). At the last step and one drawn intermediate step the "
        "answers are compared with a fresh process that has never seen the earlier texts. Steps where parso's "
        "incrementally updated tree differs from a from-scratch parse are attributed to parso, counted and not judged. "
        "Non-trivial: the history removes or moves a definition an earlier answer had returned and the compared result "
        "is non-empty; distinct = hash(initial text, history).")
ASSUMPTIONS = ["a fresh interpreter process with a private parser cache is the reference for 'no history'",
               "the buffer's directory contains nothing but generated files", "vendored typeshed",
               "the history and the reference run within call_signatures_validity (3 s) of each other where the rule targets it"]

METHODS = ["infer", "goto", "complete", "get_signatures", "get_references", "get_names"]
OPS = ["insert_line", "delete_line", "replace_line", "dup_line", "insert_chars", "delete_chars", "indent", "dedent",
       "paste", "undo", "switch_path", "edit_def", "edit_def", "append_call", "none", "multiline_call", "flip_callee",
       "page_break", "eol_style"]
SNIPPETS = ["value_x = 1", "def helper_new(arg_a, arg_b=2):\n    return arg_a", "class FreshClass:\n    attr_q = 'q'",
            "import os", "    pass", "result_y = helper_new(1)", "for item_z in range(3):\n    print(item_z)", "# comment", ""]


@st.composite
def cases(draw):
    if draw(st.integers(0, 2)) == 0:
        name, text = draw(corpus.windows(lo=10, hi=45, only_valid=True))
    else:
        prog = draw(proggen.programs(max_blocks=4, multi=False))
        name, text = "generated", prog.files()["main_mod.py"]
    n = draw(st.integers(1, 30))
    steps = []
    for _ in range(n):
        op = draw(st.sampled_from(OPS))
        steps.append({"op": op, "a": draw(st.floats(0, 0.999)), "b": draw(st.floats(0, 0.999)),
                      "s": draw(st.sampled_from(SNIPPETS)), "k": draw(st.integers(0, 5)),
                      "q": [[draw(st.sampled_from(METHODS)), draw(st.floats(0, 0.999))] for _ in range(3)]})
    return {"origin": name, "text": text, "steps": steps, "with_path": draw(st.sampled_from([True, True, False])),
            "check_at": draw(st.floats(0, 0.999))}


def apply_op(text, step, history):
    lines = text.split("\n")
    op, a, b = step["op"], step["a"], step["b"]
    i = int(a * len(lines))
    j = min(len(lines), i + 1 + int(b * 6))
    if op == "insert_line":
        lines[i:i] = step["s"].split("\n")
    elif op == "delete_line" and len(lines) > 1:
        del lines[i:min(j, i + 1 + step["k"] % 3)]
    elif op == "replace_line":
        ind = re.match(r"\s*", lines[i]).group(0)
        lines[i:i + 1] = [ind + l for l in step["s"].split("\n")]
    elif op == "dup_line":
        lines[i:i] = lines[i:j]
    elif op == "insert_chars":
        toks = list(re.finditer(r"\w+", lines[i]))
        if toks:
            t = toks[int(b * len(toks))]
            p = t.start() + step["k"] % (len(t.group(0)) + 1)
            lines[i] = lines[i][:p] + "zq"[: 1 + step["k"] % 2] + lines[i][p:]
    elif op == "delete_chars":
        if lines[i]:
            p = int(b * len(lines[i]))
            lines[i] = lines[i][:p] + lines[i][p + 1 + step["k"] % 3:]
    elif op == "indent":
        for q in range(i, j):
            lines[q] = "    " + lines[q]
    elif op == "dedent":
        for q in range(i, j):
            if lines[q].startswith("    "):
                lines[q] = lines[q][4:]
    elif op == "paste":
        src = int(b * len(lines))
        lines[i:i] = lines[src:src + 1 + step["k"]]
    elif op == "undo" and history:
        return history[int(a * len(history))]
    elif op == "edit_def":
        defs = [q for q, l in enumerate(lines) if re.match(r"\s*def \w+\(.*\):", l)]
        if defs:
            q = defs[int(a * len(defs))]
            m = re.match(r"(\s*def \w+\()(.*)(\):.*)", lines[q])
            params = m.group(2)
            if step["k"] % 3 == 0 and params:
                params = ", ".join(params.split(", ")[:-1])
            elif step["k"] % 3 == 1:
                params = (params + ", " if params else "") + "extra_%d=None" % step["k"]
            else:
                params = re.sub(r"\b(\w+)\b", lambda mm: mm.group(1) + "_r" if mm.group(1) not in ("self", "cls", "None") and not mm.group(1).isdigit() else mm.group(1), params, count=1)
            lines[q] = m.group(1) + params + m.group(3)
    elif op == "page_break":
        # a form feed on a line of its own between top-level statements (the page breaks of much of the stdlib), or
        # removed again; the reference is a fresh process on the same text, so the parser's view of it cancels out
        if "\x0c" in lines:
            lines.remove("\x0c")
        else:
            tops = [q for q, l in enumerate(lines) if l and not l[0].isspace() and (q == 0 or not lines[q - 1].rstrip().endswith(("\\", ",", "(", "[", "{", ":")))]
            if tops:
                lines.insert(tops[int(a * len(tops))], "\x0c")
    elif op == "eol_style":
        # the whole buffer switches between LF and CRLF line ends (an editor setting)
        if any(l.endswith("\r") for l in lines):
            lines = [l[:-1] if l.endswith("\r") else l for l in lines]
        else:
            lines = [l + "\r" for l in lines[:-1]] + lines[-1:]
    elif op == "multiline_call":
        # two callables with names of equal length and a call spread over two lines at the end of the buffer
        if "def zz_aaa(" not in text:
            lines += ["def zz_aaa(first, second):", "    return first", "def zz_bbb(other=1):", "    return other"]
        lines += ["zz_aaa(", "    1,"]
    elif op == "flip_callee":
        for q in range(len(lines) - 1, -1, -1):
            if lines[q] in ("zz_aaa(", "zz_bbb("):
                lines[q] = "zz_bbb(" if lines[q] == "zz_aaa(" else "zz_aaa("
                break
    elif op == "append_call":
        names = re.findall(r"^def (\w+)\(", text, re.M)
        if names:
            lines.append("%s(" % names[int(a * len(names))])
    return "\n".join(lines)


def sample_queries(text, qs):
    out = []
    try:
        toks = pyfront.name_tokens(text)
    except Exception:
        toks = []
    if not toks:
        toks = [(m.string[:m.start()].count("\n") + 1, m.start() - (m.string.rfind("\n", 0, m.start()) + 1), m.group(0)) for m in re.finditer(r"[A-Za-z_]\w*", text)][:200]
    parens = [(text[:m.end()].count("\n") + 1, m.end() - (text.rfind("\n", 0, m.end()) + 1)) for m in re.finditer(r"\w\(", text)]
    for method, f in qs:
        if method == "get_names":
            out.append([method, 1, 0])
        elif method == "get_signatures" and parens:
            l, c = parens[int(f * len(parens))]
            out.append([method, l, c])
        elif toks:
            l, c, s = toks[int(f * len(toks))]
            out.append([method, l, c + max(1, len(s) // 2)])
    return out


def _open_call_line(text, line, col):
    """Line of the innermost '(' that is still open at (line, col), by a plain character scan (strings and comments
    skipped roughly; the buffers are broken code, no tokenizer applies). None when no bracket is open."""
    lines = text.split("\n")
    stack = []
    for li, ln in enumerate(lines[:line], 1):
        end = col if li == line else len(ln)
        quote = None
        k = 0
        while k < end:
            ch = ln[k]
            if quote:
                if ch == "\\":
                    k += 1
                elif ch == quote:
                    quote = None
            elif ch in "'\"":
                quote = ch
            elif ch == "#":
                break
            elif ch in "([{":
                stack.append((ch, li))
            elif ch in ")]}" and stack:
                stack.pop()
            k += 1
    for ch, li in reversed(stack):
        if ch == "(":
            return li
    return None


def tree_dump(node):
    out = []

    def walk(n):
        if hasattr(n, "children"):
            out.append((n.type, n.start_pos, n.end_pos))
            for ch in n.children:
                walk(ch)
        else:
            out.append((n.type, n.start_pos, n.value, n.prefix))
    walk(node)
    return out


def answer(jedi, text, path, project, q):
    method, line, col = q
    try:
        s = jedi.Script(text, path=path, project=project)
        if method == "get_names":
            res = s.get_names(all_scopes=True, definitions=True, references=True)
        else:
            res = getattr(s, method)(line, col)
        return {"ok": api.ser_result(method, res)}, s
    except Exception as e:
        return {"exc": type(e).__name__}, None


def norm(method, ans):
    if "exc" in ans:
        return ("exc", ans["exc"])
    items = [str(sorted(d.items())) if isinstance(d, dict) else str(d) for d in ans["ok"]]
    return tuple(sorted(items)) if method in ("goto", "help", "get_references") else tuple(items)


def run_case(ctx, case):
    jedi = boot.jedi_boot()
    import parso
    root = boot.fresh_dir("c08")
    proj = root / "proj"
    proj.mkdir()
    paths = [str(proj / "buffer_one.py"), str(proj / "buffer_two.py")] if case["with_path"] else [None, None]
    cur_path = 0
    text = case["text"]
    history = []
    records = []     # (step index, text, path, queries, answers, parso_ok)
    returned_names = set()
    must_compare = []
    removed_something = False
    boot.forget_path(paths[0])
    boot.forget_path(paths[1])
    project = jedi.Project(str(proj))
    with core.time_limit(280):
        jedi.Script(text, path=paths[0], project=project).get_names()        # the buffer as first opened
        for si, step in enumerate(case["steps"]):
            history.append(text)
            if step["op"] == "switch_path":
                cur_path = 1 - cur_path
            if step["op"] == "edit_def":
                # ask for the signatures at the (unchanged) calls BEFORE the definition is edited, as an editor would
                for q in sample_queries(text, [["get_signatures", step["b"]], ["get_signatures", step["a"]], ["get_signatures", 0.999]]):
                    answer(jedi, text, paths[cur_path], project, q)
            new_text = apply_op(text, step, history[:-1])
            if corpus.nesting_depth(new_text) > 30 or len(new_text) > 20000:
                new_text = text
            text = new_text
            qs = sample_queries(text, step["q"])
            if step["op"] == "edit_def":
                extra = sample_queries(text, [["get_signatures", step["b"]], ["get_signatures", step["a"]], ["get_signatures", 0.999]])
                must_compare.append(si)
                qs = extra + qs
            if step["op"] in ("multiline_call", "flip_callee") and text.rstrip("\n").endswith("    1,"):
                tl = text.rstrip("\n").split("\n")
                qs = [["get_signatures", len(tl), len(tl[-1])]] + qs
                must_compare.append(si)
            answers = []
            parso_ok = True
            for q in qs:
                a, s = answer(jedi, text, paths[cur_path], project, q)
                answers.append(a)
                if s is not None and parso_ok:
                    try:
                        scratch = parso.parse(text)
                        if tree_dump(s._module_node) != tree_dump(scratch):
                            parso_ok = False
                    except Exception:
                        parso_ok = False
                if "ok" in a:
                    for d in a["ok"]:
                        if isinstance(d, dict) and d.get("name"):
                            returned_names.add(d["name"])
            if any(n not in text for n in returned_names):
                removed_something = True
            records.append((si, text, paths[cur_path], qs, answers, parso_ok))
            ctx.count()
    # choose steps to compare: the last, and one intermediate
    pick = {len(records) - 1, int(case["check_at"] * len(records))} | set(must_compare[:2]) | set(must_compare[-2:])
    jobs = []
    for idx in sorted(pick):
        si, t, p, qs, answers, parso_ok = records[idx]
        jobs.append({"id": str(idx), "text": t, "path": p, "project": str(proj), "queries": qs})
    devs = []
    warm = boot.tmp_root() / "c08-warm-cache"
    if not warm.exists():
        boot.run_refworker([{"id": "w", "text": "import os\nos.path.join('a').upper", "path": None, "project": None,
                             "queries": [["infer", 2, 20], ["complete", 2, 3]]}], cache_dir=warm)
    for job in jobs:
        cdir = root / ("cache-" + job["id"])
        if warm.exists():
            shutil.copytree(warm, cdir)
        ref = boot.run_refworker([job], cache_dir=cdir)
        shutil.rmtree(cdir, ignore_errors=True)
        if ref is None:
            ctx.discard("reference process failed")
            continue
        si, t, p, qs, answers, parso_ok = records[int(job["id"])]
        if not parso_ok:
            ctx.extra["parso_diff_mismatch"] = ctx.extra.get("parso_diff_mismatch", 0) + 1
            ctx.cls("not-judged:parso-diff-parser-mismatch")
            continue
        for q, mine, theirs in zip(qs, answers, ref[job["id"]]):
            a, b = norm(q[0], mine), norm(q[0], theirs)
            ctx.cls("compared:" + q[0])
            if a and a[:1] != ("exc",) and removed_something:
                ctx.nontriv([case["text"], si, q])
            if a != b:
                if a[:1] == ("exc",) or b[:1] == ("exc",):
                    ctx.cls("not-judged:internal-exception(C01)")
                    continue
                last_ops = [s["op"] for s in case["steps"][max(0, si - 2):si + 1]]
                shape = ""
                if q[0] == "get_signatures":
                    import re as _re
                    mb = _re.search(r"'bracket_start', \[(\d+)", str(a) + str(b))
                    if mb and int(mb.group(1)) < q[1]:
                        shape = ":cursor-below-bracket-line"
                    elif sorted(a) == sorted(b):
                        # the same signatures in another order: several definitions of one callee (if/else branches);
                        # their order is the iteration order of a ValueSet (objects hashed by address)
                        shape = ":same-signatures-different-order"
                if q[0] == "complete":
                    import re as _re
                    # (per item: repr() of the whole tuple escapes the quotes of items that contain both kinds)
                    nm = lambda t: sorted(n_ for item_ in t for n_ in _re.findall(r"\('name', '([^']*)'\)", str(item_)))
                    if nm(a) == nm(b):
                        shape = ":same-names-different-definition"
                    elif p and _open_call_line(t, q[1], q[2]) not in (None, q[1]):
                        # completion inside the parentheses of a call opened on an earlier line consults the (stale, see the
                        # pinned get_signatures finding) 3-second signature cache to decide between positional and
                        # keyword-only completions
                        shape = ":inside-call-opened-on-earlier-line"
                pathpart = "" if shape == ":same-signatures-different-order" else ":with-path" if p else ":no-path"
                devs.append(("history-dependent-answer:%s%s%s" % (q[0], pathpart, shape),
                             "step %d (%s) %s at %s: with history %s ; fresh process %s" % (si, last_ops, q[0], (q[1], q[2]), str(a)[:300], str(b)[:300])))
    ops = {s["op"] for s in case["steps"]}
    for o in ops:
        ctx.cls("op:" + o)
    ctx.sample({"origin": case["origin"], "steps": [s["op"] for s in case["steps"]], "with_path": case["with_path"],
                "compared_steps": sorted(pick)}, limit=3)
    for sig, detail in devs:
        ctx.judge(sig, detail, case)


def shard(ctx):
    core.drive(ctx, cases(), lambda c: run_case(ctx, c), EXAMPLES[ctx.tier])


def replay(ctx, case):
    run_case(ctx, case)
