"""C04 — completions extend what is typed, are ordered, unique (algebraic part) and complete (attribute part)."""
import re
import tokenize
from hypothesis import strategies as st
from .. import boot, core, corpus, api
from ..oracles import pyfront

ID = "C04"
LEVEL = "exploration"
BUDGET = {"quick": 150, "thorough": 1500}
EXAMPLES = {"quick": 200, "thorough": 2500}
RULE = ("algebra: valid frozen-corpus chunks (layout mutators) and generated programs x 8 cursors per case drawn from "
        "{inside/end of an identifier token, after '.', after '(' or ',', after 'import '/'from '} x {full text, text "
        "truncated at the cursor = code being typed} x {fuzzy, non-fuzzy}; the fragment is computed from CPython's "
        "tokenizer; each completion list is checked for prefix/subsequence match, complete == missing suffix of "
        "name_with_symbols, prefix length, no duplicate (name, complete), documented order. completeness: generated "
        "executable programs (vlib.proggen) are run in a fresh interpreter and for every probed receiver the "
        "source-defined attributes of the live object must all be offered after 'recv.'. Non-trivial: non-empty list "
        "and (non-empty fragment or generated receiver); for order: list mixes >=2 of public/_private/__dunder. "
        "distinct = hash(text, cursor, fuzzy).")
ASSUMPTIONS = ["CPython tokenize decides what the typed fragment is", "settings.case_insensitive_completion and "
               "add_bracket_after_function at their defaults", "vendored typeshed",
               "CPython execution (fresh interpreter) as oracle for attribute completeness"]


@st.composite
def cases(draw):
    name, text, applied = draw(corpus.valid_sources(max_lines=70))
    picks = draw(st.lists(st.tuples(st.integers(0, 10 ** 6), st.integers(0, 40), st.booleans(), st.booleans()),
                          min_size=8, max_size=8))
    return {"kind": "algebra", "origin": name, "mut": applied, "text": text, "picks": picks}


def candidate_cursors(text):
    """[(line, col, frag, klass)] from CPython's tokenizer."""
    out = []
    try:
        toks = pyfront.tokens(text)
    except Exception:
        return out
    lines = pyfront.lf(text).split("\n")
    in_import = False
    for i, t in enumerate(toks):
        if t.type == tokenize.NAME:
            if t.string in ("import", "from") and (i == 0 or toks[i - 1].type in (tokenize.NEWLINE, tokenize.NL, tokenize.INDENT, tokenize.DEDENT) or toks[i - 1].string in (";", ":") or t.string == "import"):
                in_import = True
                ln = lines[t.end[0] - 1]
                if ln[t.end[1]:t.end[1] + 1] == " ":
                    out.append((t.end[0], t.end[1] + 1, "", "import"))
                continue
            if t.start[0] != t.end[0]:
                continue
            for k in range(1, len(t.string) + 1):
                out.append((t.start[0], t.start[1] + k, t.string[:k], "import" if in_import else ("ident-end" if k == len(t.string) else "ident-inside")))
        elif t.type == tokenize.OP:
            if t.string == ".":
                out.append((t.end[0], t.end[1], "", "after-dot"))
            elif t.string in ("(", ","):
                out.append((t.end[0], t.end[1], "", "call-paren"))
        elif t.type == tokenize.NEWLINE:
            in_import = False
    return out


def order_key(name, frag):
    return (not name.startswith(frag), name.startswith("__"), name.startswith("_"), name.lower())


def is_subsequence(frag, name):
    it = iter(name)
    return all(ch in it for ch in frag)


def check_list(comps, frag, fuzzy, devs, where):
    seen = set()
    names = []
    for c in comps:
        name, comp, nws, plen = c.name, c.complete, c.name_with_symbols, c.get_completion_prefix_length()
        if not name.rstrip("=").isidentifier():
            continue     # dict-key / string completions follow their own documented rules (outside C04)
        names.append(name)
        if plen != len(frag):
            devs.append(("prefix-length", "%s: %r prefix_length=%d fragment=%r" % (where, name, plen, frag)))
        if fuzzy:
            if not is_subsequence(frag.lower(), name.lower()):
                devs.append(("fuzzy-not-a-subsequence", "%s: %r fragment=%r" % (where, name, frag)))
            if comp is not None:
                devs.append(("fuzzy-complete-not-None", "%s: %r complete=%r" % (where, name, comp)))
        else:
            if not name.lower().startswith(frag.lower()):
                devs.append(("name-does-not-extend-fragment", "%s: %r fragment=%r" % (where, name, frag)))
            if comp != nws[len(frag):]:
                devs.append(("complete-is-not-missing-suffix", "%s: %r complete=%r name_with_symbols=%r fragment=%r" % (where, name, comp, nws, frag)))
            if not nws.startswith(name.rstrip("=")):
                devs.append(("name_with_symbols-does-not-start-with-name", "%s: %r %r" % (where, name, nws)))
        k = (name, comp)
        if k in seen:
            devs.append(("duplicate-completion", "%s: %r" % (where, k)))
        seen.add(k)
    keys = [order_key(n, frag) for n in names]
    if keys != sorted(keys):
        i = next(i for i in range(len(keys) - 1) if keys[i] > keys[i + 1])
        devs.append(("order", "%s: %r before %r (fragment %r)" % (where, names[i], names[i + 1], frag)))
    groups = {("dunder" if n.startswith("__") else "private" if n.startswith("_") else "public") for n in names}
    return names, groups


def run_algebra(ctx, case):
    jedi = boot.jedi_boot()
    text = case["text"]
    if not corpus.is_compilable(text):
        ctx.discard("not compilable after mutation")
        return
    cands = candidate_cursors(text)
    if not cands:
        ctx.discard("no candidate cursor")
        return
    devs = []
    lines = corpus.split_lines(text)
    with core.time_limit(200):
        s_full = boot.fresh_script(text)
        if s_full.get_syntax_errors():
            ctx.discard("parso reports a syntax error")
            return
        # cursors in identifiers with non-ASCII characters are rare among all candidates: every third pick is taken
        # from them when there are any (case folding and length arithmetic differ there)
        special = [c for c in cands if not c[2].isascii()]
        for pi, (seed, _, fuzzy, truncate) in enumerate(case["picks"]):
            pool = special if (special and pi % 3 == 0) else cands
            line, col, frag, klass = pool[seed % len(pool)]
            if not frag.isascii():
                ctx.cls("fragment:non-ascii")
            ctx.count()
            if truncate:
                t2 = "".join(lines[:line - 1]) + lines[line - 1][:col]
                s = boot.fresh_script(t2)
            else:
                s = s_full
            where = "%s %s@(%d,%d)%s%s" % (case["origin"], klass, line, col, " fuzzy" if fuzzy else "", " typed" if truncate else "")
            comps = s.complete(line, col, fuzzy=fuzzy)
            names, groups = check_list(comps, frag, fuzzy, devs, where)
            ctx.cls("cursor:" + klass, "fuzzy" if fuzzy else "prefix", "typed" if truncate else "full")
            if names and frag:
                ctx.nontriv([text, line, col, fuzzy, truncate])
            if len(groups) >= 2:
                ctx.cls("order-mixes-groups")
                ctx.nontriv([text, line, col, fuzzy, truncate, "order"])
            ctx.sample({"origin": case["origin"], "cursor": [line, col], "class": klass, "fragment": frag, "fuzzy": fuzzy,
                        "typed_prefix_only": truncate, "completions": len(comps), "first": names[:5]}, limit=4)
    for sig, detail in devs:
        ctx.judge(sig, detail, case)


def run_case(ctx, case):
    if case.get("kind") == "complete":
        from . import c04_complete
        return c04_complete.run_case(ctx, case)
    return run_algebra(ctx, case)


def shard(ctx):
    n = EXAMPLES[ctx.tier]
    core.drive(ctx, cases(), lambda c: run_case(ctx, c), n)
    from . import c04_complete
    c04_complete.shard(ctx)


def replay(ctx, case):
    run_case(ctx, case)
