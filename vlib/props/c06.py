"""C06 — extract and inline refactorings keep the program valid and equivalent."""
import os
import re
from pathlib import Path
from hypothesis import strategies as st
from .. import boot, core, api, proggen, tracer, refac, corpus

ID = "C06"
LEVEL = "exploration"
BUDGET = {"quick": 160, "thorough": 1700}
EXAMPLES = {"quick": 7, "thorough": 200}
RULE = ("cases = executable programs from vlib.proggen; selections drawn from CPython's ast of the main module: 8 "
        "expression nodes by their exact source range (explicit until-position and cursor-only), 3 runs of complete "
        "statements inside function bodies, 3 single-assignment variables (inline), and 6 arbitrary (pos, until) ranges. "
        "Every extract_variable / extract_function / inline call must either raise RefactoringError or return code that "
        "compile()s; for selections that the ast marks pure and evaluated once (not a target, not a while-test, not in "
        "a lambda/comprehension mentioning its variable, not in a def/class header, no walrus/yield) the new program "
        "must print the same stdout and end with the same exception type as the old one in a fresh interpreter; and "
        "extract_variable followed by inline of the new variable must be equivalent to the original. Non-trivial: the "
        "refactoring was not refused and changed >=1 line; distinct = hash(program, refactoring, selection).")
ASSUMPTIONS = ["CPython compile() and execution in a fresh interpreter as oracles", "generated programs have no side effects "
               "other than the final prints, so every expression is pure; the once-evaluated predicate is computed on the ast"]

NEW = "extracted_zz"


@st.composite
def cases(draw):
    prog = draw(proggen.programs(max_blocks=5, multi=draw(st.sampled_from([False, False, True]))))
    picks = draw(st.lists(st.integers(0, 10 ** 6), min_size=70, max_size=70))
    impure = [p["name"] for p in prog.main.probes if "genexp" in p["tags"]]     # list(generator object): consumes it
    return {"files": prog.files(), "main": "main_mod.py", "picks": picks, "features": sorted(prog.features), "impure": impure}


def behaviour(top, files, main, tag):
    root = top / tag / "proj"
    root.mkdir(parents=True)
    tracer.write_project(root, files)
    rep = tracer.run(root, main, [])
    if rep is None:
        return ("timeout", "")
    return (rep["stdout"], (rep["exc"] or "").split(":")[0])


def run_case(ctx, case):
    jedi = boot.jedi_boot()
    top = Path(os.path.realpath(boot.fresh_dir("c06")))
    root = top / "orig" / "proj"
    root.mkdir(parents=True)
    tracer.write_project(root, case["files"])
    main = case["main"]
    text = case["files"][main]
    path = root / main
    rep = tracer.run(root, main, [])
    if rep is None or rep["exc"]:
        ctx.discard("original program raised or timed out (generator bug)")
        return
    base = (rep["stdout"], "")
    project = jedi.Project(str(root))
    try:
        exprs = refac.expression_ranges(text)
        runs = refac.statement_runs(text)
    except SyntaxError:
        ctx.discard("main module not parseable by ast")
        return
    picks = list(case["picks"]) * 2
    lines = corpus.split_lines(text)
    devs = []
    counter = [0]

    def new_code_of(r):
        cf = r.get_changed_files()
        return {str(Path(p).relative_to(root)): c.get_new_code() for p, c in cf.items()}

    def judge(refname, selcls, call, pure, extra=""):
        """Run one refactoring. Returns new main text or None."""
        ctx.count()
        counter[0] += 1
        where = "%s %s %s" % (refname, selcls, extra)
        try:
            s = boot.fresh_script(text, path=str(path), project=project)
            r = call(s)
            changed = new_code_of(r)
        except jedi.RefactoringError:
            ctx.cls("refused:%s:%s" % (refname, selcls))
            return None
        except ValueError as e:
            if "range" in str(e) or "position" in str(e):
                ctx.cls("ValueError-position")
                return None
            devs.append(("exception:%s:%s:%s" % (refname, selcls, api.bucket(e, refname)), where + " " + api.tb_tail(e, 4)))
            return None
        except Exception as e:
            devs.append(("exception:%s:%s:%s" % (refname, selcls, api.bucket(e, refname)), where + " " + api.tb_tail(e, 4)))
            return None
        new_main = changed.get(main, text)
        ctx.cls("done:%s:%s" % (refname, selcls))
        if new_main != text:
            ctx.nontriv([text, refname, extra])
        try:
            compile(new_main, main, "exec", dont_inherit=True)
        except (SyntaxError, ValueError) as e:
            devs.append(("does-not-compile:%s:%s" % (refname, selcls), where + " -> %s: %r" % (e, (getattr(e, "text", "") or "")[:80])))
            return None
        if pure:
            files = dict(case["files"])
            files.update(changed)
            nb = behaviour(top, files, main, "r%d" % counter[0])
            if nb[0] == "timeout":
                ctx.inconclusive += 1
            elif (nb[0], nb[1]) != base:
                devs.append(("behaviour-changed:%s:%s" % (refname, selcls), where + " old=%r new=%r" % (base[0][-60:], nb[1] or nb[0][-60:])))
                return None
        return new_main

    with core.time_limit(290):
        # ---- expression selections
        contents_ = [e for e in exprs if e[4].get("contents")]
        for _ in range(8):
            if not exprs:
                break
            pool_ = exprs
            if _ < 2 and contents_:
                pool_ = contents_      # two of the eight picks go to the contents of bracketed displays when there are any
            l, c, el, ec, info = pool_[picks.pop() % len(pool_)]
            sel = "aligned-expr:" + ("value" if info["value"] else "non-value") + ("+binder" if info["binder"] else "") + ("+kwcall" if info["kwcall"] else "")
            if info.get("contents"):
                sel = "display-contents:" + ("elements" if info["pure_once"] else "other")
            src_text = text.split("\n")[l - 1][c:ec] if l == el else "<multi-line>"
            newv = judge("extract_variable", sel, lambda s: s.extract_variable(l, c, new_name=NEW, until_line=el, until_column=ec),
                         info["pure_once"], "(%d,%d)-(%d,%d) %r" % (l, c, el, ec, src_text[:40]))
            if newv is not None and info["pure_once"]:
                # (iii) extract then inline the new variable
                m = re.search(r"^(\s*)%s = " % NEW, newv, re.M)
                if m:
                    dl = newv[:m.start()].count("\n") + 1
                    dc = len(m.group(1))
                    try:
                        s2 = boot.fresh_script(newv, path=str(path), project=project)
                        r2 = s2.inline(dl, dc + 1)
                        back = new_code_of(r2).get(main, newv)
                        compile(back, main, "exec", dont_inherit=True)
                        files = dict(case["files"])
                        files[main] = back
                        counter[0] += 1
                        nb = behaviour(top, files, main, "i%d" % counter[0])
                        ctx.cls("extract-then-inline")
                        if nb[0] == "timeout":
                            ctx.inconclusive += 1
                        elif (nb[0], nb[1]) != base:
                            devs.append(("extract-then-inline-changes-behaviour:" + sel, "%r at (%d,%d): new=%r" % (src_text[:40], l, c, nb[1] or nb[0][-60:])))
                    except jedi.RefactoringError:
                        ctx.cls("refused:inline-after-extract")
                    except SyntaxError as e:
                        devs.append(("extract-then-inline-does-not-compile:" + sel, "%r at (%d,%d): %s" % (src_text[:40], l, c, e)))
                    except Exception as e:
                        devs.append(("exception:inline-after-extract:%s" % api.bucket(e, "inline"), api.tb_tail(e, 4)))
            judge("extract_function", sel, lambda s: s.extract_function(l, c, new_name=NEW, until_line=el, until_column=ec),
                  info["pure_once"], "(%d,%d)-(%d,%d) %r" % (l, c, el, ec, src_text[:40]))
            if picks.pop() % 2:
                judge("extract_variable", "cursor-only", lambda s: s.extract_variable(l, c, new_name=NEW), False, "(%d,%d)" % (l, c))
                judge("extract_function", "cursor-only", lambda s: s.extract_function(l, c, new_name=NEW), False, "(%d,%d)" % (l, c))
        # ---- statement runs
        for _ in range(3):
            if not runs:
                break
            l, c, el, ec, rshape = runs[picks.pop() % len(runs)]
            judge("extract_function", "aligned-stmts" + rshape, lambda s: s.extract_function(l, c, new_name=NEW, until_line=el, until_column=ec),
                  True, "(%d,%d)-(%d,%d)" % (l, c, el, ec))
        # ---- inline of single-assignment variables
        assigns = [(m.start(), m.group(1)) for m in re.finditer(r"^(pv_\w+) = ", text, re.M) if m.group(1) not in case.get("impure", [])]
        # stratified by the syntactic class of the right-hand side (bare tuple, operator, call, ...): the first picks go
        # to distinct classes, rarest class first, so that one frequent shape does not take all three
        import ast as _ast
        rhs_kind = {}
        try:
            for node in _ast.parse(text).body:
                if isinstance(node, _ast.Assign) and len(node.targets) == 1 and isinstance(node.targets[0], _ast.Name):
                    seg = text.split("\n")[node.value.lineno - 1][node.value.col_offset:node.value.col_offset + 1]
                    rhs_kind[node.targets[0].id] = type(node.value).__name__ + ("-bare" if isinstance(node.value, _ast.Tuple) and seg != "(" else "")
        except SyntaxError:
            pass
        by_kind = {}
        for off, name in assigns:
            by_kind.setdefault(rhs_kind.get(name, "?"), []).append((off, name))
        strata = sorted(by_kind, key=lambda k: (len(by_kind[k]), k))
        for i in range(3):
            if not assigns:
                break
            pool = by_kind[strata[(picks.pop() + i) % len(strata)]] if i < 2 else assigns
            off, name = pool[picks.pop() % len(pool)]
            ctx.cls("inline-rhs:" + rhs_kind.get(name, "?"))
            l = text[:off].count("\n") + 1
            judge("inline", "single-assignment", lambda s: s.inline(l, 1), True, "%s at line %d" % (name, l))
        # ---- arbitrary ranges (compile-or-refuse only)
        for _ in range(6):
            l = 1 + picks.pop() % len(lines)
            ln = lines[l - 1].rstrip("\r\n")
            c = picks.pop() % (len(ln) + 1) if picks else 0
            el = min(len(lines), l + (picks.pop() % 3 if picks else 0) // 2)
            eln = lines[el - 1].rstrip("\r\n")
            ec = (picks.pop() if picks else 7) % (len(eln) + 1)
            if (el, ec) <= (l, c):
                el, ec = l, min(len(ln), c + 3)
            if (el, ec) <= (l, c):
                continue
            cls_ = refac.selection_class(text, l, c, el, ec)
            for refname in ("extract_variable", "extract_function"):
                judge(refname, "arbitrary:" + cls_, lambda s: getattr(s, refname)(l, c, new_name=NEW, until_line=el, until_column=ec),
                      False, "(%d,%d)-(%d,%d) %r" % (l, c, el, ec, (ln[c:ec] if l == el else ln[c:] + "...")[:40]))
    ctx.sample({"features": case["features"], "refactorings_run": counter[0], "main_lines": len(lines)}, limit=3)
    for sig, detail in devs:
        ctx.judge(sig, detail, case)


def shard(ctx):
    core.drive(ctx, cases(), lambda c: run_case(ctx, c), EXAMPLES[ctx.tier])


def replay(ctx, case):
    run_case(ctx, case)
