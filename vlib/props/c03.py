"""C03 — name resolution follows Python's scoping rules."""
import os
import sys
import json
import symtable
import itertools
import subprocess
from hypothesis import strategies as st
from .. import boot, core, api

ID = "C03"
LEVEL = "exploration"
BUDGET = {"quick": 150, "thorough": 1500}
EXAMPLES = {"quick": 260, "thorough": 5000}
EXHAUSTIVE = {"quick": False, "thorough": False}
RULE = ("cases = scope-nesting shapes: a chain of scopes module > {function, class, lambda, comprehension}* (depth<=4); "
        "for one identifier out of {value, len} every scope draws a binding pattern before and after its child "
        "(assignment, assignment followed by del, parameter default, import-as, for/with/except target, walrus, class attribute, global/nonlocal "
        "declaration with or without assignment) and up to three recorded uses (begin/middle/end); shapes CPython "
        "rejects are dropped by compile(). Every binding stores a sentinel naming its site; the program is executed and "
        "each *executed* use reports the sentinel it read. Oracle: symtable says which variable (owning scope) the use "
        "refers to, the sentinel says which binding was read, the two must agree; goto on the use must return >=1 "
        "definitions, all of them binding sites (or global/nonlocal declarations) of that variable, and exactly the "
        "observed site when use and bindings are straight-line code of one scope. The first 40 cases of shard 0 are an "
        "exhaustive sweep of depth-1 shapes. Non-trivial: >=2 scopes bind the identifier, or a global/nonlocal/class/"
        "comprehension/lambda scope lies between use and owner; distinct = hash(source, use).")
ASSUMPTIONS = ["CPython execution + symtable as scoping oracle (they must agree, else the case is discarded and counted)",
               "uses that raise NameError/UnboundLocalError are not judged", "vendored typeshed"]

PRELUDE = [
    "import sentinels_mod",
    "RECORDED = []",
    "def REC(use_id, got):",
    "    if isinstance(got, BaseException) and got.args: got = got.args[0]",
    "    RECORDED.append((use_id, got if isinstance(got, str) else ('<builtin>' if got is len else repr(type(got)))))",
    "    return got",
    "class CM:",
    "    def __init__(self, payload): self.payload = payload",
    "    def __enter__(self): return self.payload",
    "    def __exit__(self, *exc): return False",
]
STMT_PATTERNS = ["none", "none", "assign", "assign", "import", "for", "with", "walrus", "global", "global_assign", "nonlocal",
                 "nonlocal_assign", "except", "del_after_assign"]
EXPR_PATTERNS = ["none", "walrus"]


class Src:
    def __init__(self, ident):
        self.ident = ident
        self.lines = list(PRELUDE)
        self.sites = []      # {sid, line, col, scope}
        self.uses = []       # {uid, line, col, scope}
        self.decls = []      # {line, col, scope, kind}
        self.scopes = [{"kind": "module", "line": 0, "parent": None}]
        self.unbinds = []    # {line, scope, kind}: places where the identifier becomes unbound again (del, end of an except clause)
        self.n = 0

    def add(self, text):
        self.lines.append(text)
        return len(self.lines)

    def site(self, line, col, scope):
        sid = len(self.sites)
        self.sites.append({"sid": sid, "line": line, "col": col, "scope": scope})
        return sid

    def use_expr(self, scope):
        """expression text for a recorded use; the caller must place it and then call fix_use."""
        uid = len(self.uses)
        self.uses.append({"uid": uid, "scope": scope, "line": None, "col": None})
        return uid, "REC(%d, %s)" % (uid, self.ident)

    def locate_use(self, uid, line, text_line):
        marker = "REC(%d, " % uid
        self.uses[uid]["line"] = line
        self.uses[uid]["col"] = text_line.index(marker) + len(marker)


def emit_binding(src, pat, scope, pad):
    """Statement-level binding pattern in a module/function/class scope."""
    x = src.ident
    if pat == "none":
        return
    sid_holder = lambda: len(src.sites)
    if pat in ("assign", "global_assign", "nonlocal_assign", "del_after_assign", "augassign"):
        if pat == "global_assign":
            ln = src.add("%sglobal %s" % (pad, x))
            src.decls.append({"line": ln, "col": len(pad) + 7, "scope": scope, "kind": "global"})
        if pat == "nonlocal_assign":
            ln = src.add("%snonlocal %s" % (pad, x))
            src.decls.append({"line": ln, "col": len(pad) + 9, "scope": scope, "kind": "nonlocal"})
        sid = sid_holder()
        ln = src.add('%s%s = "S%d"' % (pad, x, sid))
        src.site(ln, len(pad), scope)
        if pat == "augassign":
            sid2 = sid_holder()
            ln = src.add('%s%s += "+S%d"' % (pad, x, sid2))
            src.site(ln, len(pad), scope)
        if pat == "del_after_assign":
            ln = src.add("%sdel %s" % (pad, x))
            src.unbinds.append({"line": ln, "scope": scope, "kind": "del"})
    elif pat == "global":
        ln = src.add("%sglobal %s" % (pad, x))
        src.decls.append({"line": ln, "col": len(pad) + 7, "scope": scope, "kind": "global"})
    elif pat == "nonlocal":
        ln = src.add("%snonlocal %s" % (pad, x))
        src.decls.append({"line": ln, "col": len(pad) + 9, "scope": scope, "kind": "nonlocal"})
    elif pat == "import":
        sid = sid_holder()
        text = "%sfrom sentinels_mod import s%d as %s" % (pad, sid, x)
        ln = src.add(text)
        src.site(ln, text.rindex(" " + x) + 1, scope)
    elif pat == "for":
        sid = sid_holder()
        ln = src.add('%sfor %s in ["S%d"]:' % (pad, x, sid))
        src.site(ln, len(pad) + 4, scope)
        src.add("%s    pass" % pad)
    elif pat == "with":
        sid = sid_holder()
        text = '%swith CM("S%d") as %s:' % (pad, sid, x)
        ln = src.add(text)
        src.site(ln, text.rindex(" " + x) + 1, scope)
        src.add("%s    pass" % pad)
    elif pat == "walrus":
        sid = sid_holder()
        ln = src.add('%s(%s := "S%d")' % (pad, x, sid))
        src.site(ln, len(pad) + 1, scope)
    elif pat == "except":
        # the target is bound for the body of the clause only (Python deletes it at the end): one use inside the body
        sid = sid_holder()
        src.add("%stry:" % pad)
        src.add('%s    raise KeyError("S%d")' % (pad, sid))
        text = "%sexcept KeyError as %s:" % (pad, x)
        ln = src.add(text)
        src.site(ln, text.rindex(" " + x) + 1, scope)
        src.sites[-1]["except_target"] = True
        first_use = len(src.uses)
        emit_use(src, scope, pad + "    ")
        src.uses[first_use]["in_except_body"] = True
        src.unbinds.append({"line": len(src.lines), "scope": scope, "kind": "except-end"})


def emit_use(src, scope, pad):
    uid, expr = src.use_expr(scope)
    src.add("%stry:" % pad)
    text = "%s    %s" % (pad, expr)
    ln = src.add(text)
    src.locate_use(uid, ln, text)
    src.add("%sexcept NameError:" % pad)
    src.add("%s    pass" % pad)


def emit_scope(src, chain, idx, scope, pad):
    """chain[idx] describes the scope to emit *inside* `scope` (a statement scope) at indentation pad."""
    if idx >= len(chain):
        return
    node = chain[idx]
    kind = node["kind"]
    x = src.ident
    me = len(src.scopes)
    if kind in ("function", "class"):
        name = ("func%d" if kind == "function" else "Klass%d") % me
        hpad = pad
        if kind == "function":
            if node.get("param") == "use":
                # the default expression USES the identifier: evaluated in the enclosing scope when the def executes
                src.add("%stry:" % pad)
                hpad = pad + "    "
                sid = len(src.sites)
                uid, use = src.use_expr(scope)
                src.uses[uid]["in_default"] = "def"
                text = '%sdef %s(%s=(%s and "S%d")):' % (hpad, name, x, use, sid)
                ln = src.add(text)
                src.locate_use(uid, ln, text)
                src.scopes.append({"kind": kind, "line": ln, "parent": scope, "name": name})
                src.site(ln, text.index("(") + 1, me)
            elif node.get("param"):
                sid = len(src.sites)
                text = '%sdef %s(%s="S%d"):' % (pad, name, x, sid)
                ln = src.add(text)
                src.scopes.append({"kind": kind, "line": ln, "parent": scope, "name": name})
                src.site(ln, text.index("(") + 1, me)
            else:
                ln = src.add("%sdef %s():" % (pad, name))
                src.scopes.append({"kind": kind, "line": ln, "parent": scope, "name": name})
        else:
            ln = src.add("%sclass %s:" % (pad, name))
            src.scopes.append({"kind": kind, "line": ln, "parent": scope, "name": name})
        inner = hpad + "    "
        if node["use_begin"]:
            emit_use(src, me, inner)
        emit_binding(src, node["pre"], me, inner)
        if node["use_mid"]:
            emit_use(src, me, inner)
        emit_scope(src, chain, idx + 1, me, inner)
        emit_binding(src, node["post"], me, inner)
        if node["use_end"]:
            emit_use(src, me, inner)
        src.add("%spass" % inner)
        if hpad != pad:
            src.add("%sexcept NameError:" % pad)
            src.add("%s    pass" % pad)
        # binding in the PARENT after the definition but before the call
        emit_binding(src, node["parent_after_def"], scope, pad)
        if kind == "function":
            src.add("%stry:" % pad)
            src.add("%s    %s()" % (pad, name))
            src.add("%sexcept NameError:" % pad)
            src.add("%s    pass" % pad)
    else:
        # expression scopes: one statement in the parent
        parts = []
        uids = []

        def build(i, sc):
            n = chain[i]
            k = n["kind"]
            my = len(src.scopes)
            src.scopes.append({"kind": k, "line": None, "parent": sc})
            elems = []
            own_scope = my
            if n["use_begin"]:
                uid, e = src.use_expr(own_scope)
                uids.append(uid)
                elems.append(e)
            if n["pre"] == "walrus":
                sid = len(src.sites)
                src.sites.append({"sid": sid, "line": None, "col": None, "scope": own_scope, "walrus_text": '(%s := "S%d")' % (x, sid)})
                elems.append('(%s := "S%d")' % (x, sid))
            if i + 1 < len(chain) and chain[i + 1]["kind"] in ("lambda", "comprehension"):
                elems.append(build(i + 1, own_scope))
            if n["use_end"]:
                uid, e = src.use_expr(own_scope)
                uids.append(uid)
                elems.append(e)
            if not elems:
                elems.append("0")
            body = "(%s,)" % ", ".join(elems)
            if k == "lambda":
                if n.get("param") == "use":
                    sid = len(src.sites)
                    uid, use = src.use_expr(sc)        # evaluated in the scope that contains the lambda
                    uids.append(uid)
                    src.uses[uid]["in_default"] = "lambda"
                    src.sites.append({"sid": sid, "line": None, "col": None, "scope": own_scope, "param_text": 'lambda %s=(REC(%d, ' % (x, uid)})
                    return '(lambda %s=(%s and "S%d"): %s)()' % (x, use, sid, body)
                if n.get("param"):
                    sid = len(src.sites)
                    src.sites.append({"sid": sid, "line": None, "col": None, "scope": own_scope, "param_text": 'lambda %s="S%d"' % (x, sid)})
                    return '(lambda %s="S%d": %s)()' % (x, sid, body)
                return "(lambda: %s)()" % body
            if n.get("target"):
                sid = len(src.sites)
                src.sites.append({"sid": sid, "line": None, "col": None, "scope": own_scope, "comp_text": 'for %s in ["S%d"]' % (x, sid)})
                return '[%s for %s in ["S%d"]]' % (body, x, sid)
            return "[%s for loopvar%d in [0]]" % (body, my)

        expr = build(idx, scope)
        src.add("%stry:" % pad)
        text = "%s    %s" % (pad, expr)
        ln = src.add(text)
        src.add("%sexcept NameError:" % pad)
        src.add("%s    pass" % pad)
        for uid in uids:
            src.locate_use(uid, ln, text)
        for s in src.sites:
            if s["line"] is None:
                key = s.get("walrus_text") or s.get("param_text") or s.get("comp_text")
                pos = text.index(key)
                off = {"walrus_text": 1, "param_text": len("lambda "), "comp_text": len("for ")}[
                    "walrus_text" if "walrus_text" in s else "param_text" if "param_text" in s else "comp_text"]
                s["line"], s["col"] = ln, pos + off
        for sc in src.scopes:
            if sc["line"] is None:
                sc["line"] = ln
        # deeper statement scopes cannot follow an expression scope
        emit_binding(src, node["parent_after_def"], scope, pad)


def render(shape):
    src = Src(shape["ident"])
    top = shape["module"]
    if top["use_begin"]:
        emit_use(src, 0, "")
    emit_binding(src, top["pre"], 0, "")
    if top["use_mid"]:
        emit_use(src, 0, "")
    emit_scope(src, shape["chain"], 0, 0, "")
    emit_binding(src, top["post"], 0, "")
    if top["use_end"]:
        emit_use(src, 0, "")
    src.add("import json, sys")
    src.add("json.dump(RECORDED, open(sys.argv[1], 'w'))")
    return src


@st.composite
def shapes(draw):
    depth = draw(st.integers(1, 4))
    chain = []
    expr_mode = False
    for i in range(depth):
        if expr_mode:
            kind = draw(st.sampled_from(["lambda", "comprehension"]))
        else:
            kind = draw(st.sampled_from(["function", "function", "class", "lambda", "comprehension"]))
        node = {"kind": kind, "use_begin": draw(st.booleans()), "use_mid": draw(st.booleans()), "use_end": draw(st.booleans()),
                "parent_after_def": draw(st.sampled_from(["none", "none", "assign", "import", "for"]))}
        if kind in ("function", "class"):
            node["pre"] = draw(st.sampled_from(STMT_PATTERNS))
            node["post"] = draw(st.sampled_from(STMT_PATTERNS))
            node["param"] = draw(st.sampled_from([False, False, False, "literal", "use"])) if kind == "function" else False
        else:
            expr_mode = True
            node["pre"] = draw(st.sampled_from(EXPR_PATTERNS))
            node["post"] = "none"
            node["param"] = draw(st.sampled_from([False, False, False, "literal", "use"])) if kind == "lambda" else False
            node["target"] = kind == "comprehension" and draw(st.integers(0, 3)) == 0
        chain.append(node)
    chain[-1]["use_end"] = True
    module = {"pre": draw(st.sampled_from(["none", "assign", "assign", "import", "for", "with", "walrus"])),
              "post": draw(st.sampled_from(["none", "none", "assign", "import"])),
              "use_begin": draw(st.booleans()), "use_mid": draw(st.booleans()), "use_end": draw(st.booleans())}
    return {"ident": draw(st.sampled_from(["value", "value", "len"])), "module": module, "chain": chain}


def exhaustive_depth1():
    """All depth-1 shapes over a reduced pattern set (function/class child), for shard 0."""
    out = []
    pats = ["none", "assign", "global_assign", "nonlocal_assign", "for", "import"]
    for kind, pre, post, mpre, pad_, ident in itertools.product(["function", "class"], pats, ["none", "assign"],
                                                                 ["none", "assign"], ["none", "assign"], ["value", "len"]):
        out.append({"ident": ident,
                    "module": {"pre": mpre, "post": "none", "use_begin": False, "use_mid": True, "use_end": True},
                    "chain": [{"kind": kind, "use_begin": True, "use_mid": True, "use_end": True, "pre": pre, "post": post,
                               "param": False, "parent_after_def": pad_}]})
    return out


# ------------------------------------------------------------------------------------------------ oracle
def table_index(text):
    """symtable tables keyed by (type, lineno) -> table, plus parent links."""
    top = symtable.symtable(text, "main_mod.py", "exec")
    out = {}
    parents = {}

    def walk(t, parent):
        out.setdefault((t.get_type(), t.get_name(), t.get_lineno()), []).append(t)
        parents[t.get_id()] = parent
        for ch in t.get_children():
            walk(ch, t)
    walk(top, None)
    return top, out, parents


def variable_of(table, name, parents, top):
    """The owning scope (a symtable table, or 'builtins') of `name` as seen from `table`; None if unknown."""
    if table.get_type() == "module":
        return top
    try:
        sym = table.lookup(name)
    except KeyError:
        return None
    if sym.is_global():
        return top
    if sym.is_local() and not sym.is_free() and not sym.is_nonlocal():
        return table
    # free / nonlocal: nearest enclosing function-like table where it is local
    p = parents[table.get_id()]
    while p is not None:
        if p.get_type() == "function":
            try:
                s2 = p.lookup(name)
                if s2.is_local() and not s2.is_free() and not s2.is_global():
                    return p
            except KeyError:
                pass
        p = parents[p.get_id()]
    return None


def match_tables(src, text):
    """Map generator scope ids to symtable tables."""
    top, idx, parents = table_index(text)
    mapping = {0: top}
    used = set()
    for sid, sc in enumerate(src.scopes):
        if sid == 0:
            continue
        cands = []
        for (typ, name, lineno), ts in idx.items():
            if lineno != sc["line"]:
                continue
            if sc["kind"] == "function" and typ == "function" and name == sc.get("name"):
                cands += ts
            elif sc["kind"] == "class" and typ == "class" and name == sc.get("name"):
                cands += ts
            elif sc["kind"] == "lambda" and typ == "function" and name == "lambda":
                cands += ts
            elif sc["kind"] == "comprehension" and typ == "function" and name in ("listcomp", "genexpr"):
                cands += ts
        # several expression scopes on one line: order of appearance follows nesting => pick by parent
        pt = mapping.get(sc["parent"])
        pick = [t for t in cands if t.get_id() not in used and (pt is None or parents[t.get_id()] is pt)]
        if not pick:
            return None
        mapping[sid] = pick[0]
        used.add(pick[0].get_id())
    return top, mapping, parents


def run_program(root, text, sentinels):
    (root / "main_mod.py").write_text(text)
    (root / "sentinels_mod.py").write_text("".join('s%d = "S%d"\n' % (i, i) for i in range(sentinels + 1)))
    out = root / "recorded.json"
    if out.exists():
        out.unlink()
    p = subprocess.run(["/venv/bin/python", "-I", "-X", "utf8", "-c",
                        "import sys, runpy; sys.path.insert(0, %r); sys.argv = ['main_mod.py', %r]; runpy.run_path(%r, run_name='__main__')"
                        % (str(root), str(out), str(root / "main_mod.py"))],
                       stdout=subprocess.DEVNULL, stderr=subprocess.PIPE, timeout=20,
                       env={"PATH": "/usr/bin:/bin", "PYTHONDONTWRITEBYTECODE": "1"})
    if not out.exists():
        return None, p.stderr.decode("utf8", "replace")[-300:]
    return json.loads(out.read_text()), None


def run_case(ctx, shape):
    jedi = boot.jedi_boot()
    src = render(shape)
    text = "\n".join(src.lines) + "\n"
    try:
        compile(text, "main_mod.py", "exec", dont_inherit=True)
    except SyntaxError as e:
        ctx.discard("rejected by compile(): " + str(e.msg)[:40])
        return
    root = boot.fresh_dir("c03")
    rec, err = run_program(root, text, len(src.sites))
    if rec is None:
        ctx.discard("program failed: " + (err or "").strip().split("\n")[-1][:60])
        return
    m = match_tables(src, text)
    if m is None:
        ctx.discard("symtable tables could not be matched (harness)")
        return
    top, mapping, parents = m
    x = src.ident
    ctx.count()
    site_var = {}
    for s in src.sites:
        v = variable_of(mapping[s["scope"]], x, parents, top)
        site_var[s["sid"]] = v.get_id() if v is not None else None
    decl_var = []
    for d in src.decls:
        v = variable_of(mapping[d["scope"]], x, parents, top)
        decl_var.append((d, v.get_id() if v is not None else None))
    devs = []
    path = str(root / "main_mod.py")
    project = jedi.Project(str(root))
    binders = {s["scope"] for s in src.sites}
    with core.time_limit(120):
        for uid, got in rec:
            u = src.uses[uid]
            table = mapping[u["scope"]]
            v_use = variable_of(table, x, parents, top)
            builtin_read = got == "<builtin>"
            if not builtin_read and not (isinstance(got, str) and got.startswith("S")):
                continue
            read_sid = None
            if not builtin_read:
                # augmented strings "S3+S4": the last component names the binding that produced the value
                read_sid = int(got.replace("+", " ").split()[-1][1:])
                v_read = site_var[read_sid]
                if table.get_type() == "class" and v_use is table and v_read == top.get_id():
                    v_use = top          # LOAD_NAME falls back to globals while the class has not bound it yet
                if v_use is None or v_read != v_use.get_id():
                    ctx.discard("oracle disagreement: symtable vs sentinel")
                    ctx.extra["oracle_disagreement"] = ctx.extra.get("oracle_disagreement", 0) + 1
                    continue
                accept = {(s["line"], s["col"]) for s in src.sites if site_var[s["sid"]] == v_use.get_id()}
                accept |= {(d["line"], d["col"]) for d, dv in decl_var if dv == v_use.get_id()}
            boot.forget_path(path)
            script = jedi.Script(text, path=path, project=project)
            try:
                res = script.goto(u["line"], u["col"])
            except Exception as e:
                devs.append((api.bucket(e, "goto"), api.tb_tail(e)))
                continue
            got_pos = [(n.line, n.column) if n.module_path and str(n.module_path) == path else ("ext", n.module_name) for n in res]
            between = _kinds_between(src, u["scope"], None if builtin_read else src.sites[read_sid]["scope"])
            use_kind = src.scopes[u["scope"]]["kind"]
            declared = sorted({d["kind"] for d in src.decls if d["scope"] == u["scope"]})
            inherited = ""
            if not declared:
                a = src.scopes[u["scope"]]["parent"] if use_kind in ("lambda", "comprehension") else None
                while a is not None and not inherited:
                    if any(s_["scope"] == a for s_ in src.sites if not s_.get("param_text")) and not any(d["scope"] == a for d in src.decls):
                        break
                    ks = sorted({d["kind"] for d in src.decls if d["scope"] == a})
                    if ks:
                        inherited = "+inherited-%s-decl" % "+".join(ks)
                    if src.scopes[a]["kind"] in ("function", "class", "module"):
                        break
                    a = src.scopes[a]["parent"]
            shape_cls = "use-in-%s" % use_kind + ("+%s-decl" % "+".join(declared) if declared else "") + inherited \
                + (":in-%s-default" % u["in_default"] if u.get("in_default") else "")
            where = "use %d of %r at (%d,%d) in %s read %s; goto=%s" % (uid, x, u["line"], u["col"], use_kind, got, got_pos)
            ctx.cls("use-in:" + use_kind)
            if len(binders) >= 2 or between or src.decls:
                ctx.nontriv([text, uid])

            def landing(bad):
                """where a wrong landing lies relative to the use: enclosing-<kind> / own-scope / sibling"""
                out = set()
                for g in bad:
                    st_ = [s_ for s_ in src.sites if (s_["line"], s_["col"]) == g] + [d for d in src.decls if (d["line"], d["col"]) == g]
                    if not st_:
                        out.add("not-a-binding-site")
                        continue
                    sc = st_[0]["scope"]
                    anc, a = [], u["scope"]
                    while a is not None:
                        anc.append(a)
                        a = src.scopes[a]["parent"]
                    if sc == u["scope"]:
                        out.add("own-scope")
                    elif sc in anc:
                        out.add("enclosing-" + src.scopes[sc]["kind"])
                    else:
                        out.add("non-enclosing-" + src.scopes[sc]["kind"])
                return "+".join(sorted(out))

            # the identifier was unbound again (del / end of an except clause) in the use's own scope before the use, and
            # Python went on to the next scope (class body -> globals -> builtins)
            unbound_before = any(ub["scope"] == u["scope"] and ub["line"] < u["line"] for ub in src.unbinds) \
                and not u.get("in_except_body") and (builtin_read or src.sites[read_sid]["scope"] != u["scope"])
            # ... or is unbound again further down in the (enclosing) scope the value was taken from
            owner = None if builtin_read else src.sites[read_sid]["scope"]
            unbound_later_in_owner = owner is not None and (owner != u["scope"] or u.get("in_default")) and \
                any(ub["scope"] == owner and ub["line"] > u["line"] for ub in src.unbinds)
            if unbound_before:
                ctx.cls("use-after-unbinding-in-own-scope")
                own = {(s_["line"], s_["col"]) for s_ in src.sites if s_["scope"] == u["scope"]}
                if not res or all(g in own for g in got_pos):
                    # pinned root cause: jedi does not model the fall-through to the next scope (it reports nothing, or the
                    # binding that is gone); anything else reported here is judged as usual below
                    devs.append(("falls-through-after-unbinding-not-modelled:use-in-%s" % use_kind, where))
                    continue
            # ... or in a scope between the use and the scope the value came from (a class body's name that Python takes
            # from the module while jedi asks the enclosing function, where the name was deleted)
            anc_, a_ = [], src.scopes[u["scope"]]["parent"]
            while a_ is not None and a_ != owner:
                anc_.append(a_)
                a_ = src.scopes[a_]["parent"]
            unbound_between = any(ub["scope"] in anc_ for ub in src.unbinds)
            if unbound_later_in_owner or unbound_between:
                ctx.cls("use-in-nested-scope-of-a-scope-that-unbinds-the-name")
                if not res:
                    devs.append(("goto-empty:enclosing-scope-unbinds-the-name:use-in-%s%s" % (
                        use_kind, ":in-%s-default" % u["in_default"] if u.get("in_default") else ""), where))
                    continue
            if builtin_read:
                ctx.cls("builtin-read")
                # Python consulted (local ->) module -> builtins; module-level bindings that are merely not bound *yet*
                # are not "a scope Python would not consult"
                mod_sites = {(s_["line"], s_["col"]) for s_ in src.sites if site_var[s_["sid"]] == top.get_id()}
                mod_sites |= {(d["line"], d["col"]) for d, dv in decl_var if dv == top.get_id()}
                bad = [g for g in got_pos if g[0] != "ext" and g not in mod_sites]
                if not res:
                    devs.append(("goto-empty:builtin:" + shape_cls, where))
                elif bad:
                    devs.append(("goto-lands-on-unconsulted-binding:builtin:%s:lands-in-%s" % (shape_cls, landing(bad)), where))
                continue
            if not res:
                devs.append(("goto-empty:" + shape_cls, where + " accept=%s" % sorted(accept)))
                continue
            bad = [g for g in got_pos if g not in accept]
            if bad:
                devs.append(("goto-lands-on-unconsulted-binding:%s:lands-in-%s" % (shape_cls, landing(bad)),
                             where + " accept=%s" % sorted(accept)))
                continue
            s_read = src.sites[read_sid]
            all_in_use_scope = all(s_["scope"] == u["scope"] for s_ in src.sites if site_var[s_["sid"]] == v_use.get_id()) \
                and all(d["scope"] == u["scope"] for d, dv in decl_var if dv == v_use.get_id())
            # an except clause is a branch, not straight-line code: neither uses inside its body nor scopes one of whose
            # bindings is an except target are held to the exactness clause
            branchy = u.get("in_except_body") or any(s_.get("except_target") for s_ in src.sites if s_["scope"] == u["scope"])
            if all_in_use_scope and not branchy and src.scopes[u["scope"]]["kind"] in ("module", "function", "class"):
                ctx.cls("straight-line")
                exact = {(s_read["line"], s_read["col"])}
                if set(got_pos) != exact:
                    devs.append(("straight-line-not-exact:" + shape_cls, where + " expected exactly %s" % sorted(exact)))
    ctx.sample({"ident": x, "chain": [n["kind"] for n in shape["chain"]], "uses_executed": len(rec),
                "source": text[len("\n".join(PRELUDE)) + 1:][:500]}, limit=3)
    for sig, detail in devs:
        ctx.judge(sig, detail, {"shape": shape})


def _aug_ok(src, got_pos, s_read):
    line = src.lines[s_read["line"] - 1]
    return "+=" in line and (s_read["line"], s_read["col"]) in got_pos


def _kinds_between(src, use_scope, owner_scope):
    """Scope kinds strictly between the using scope and the scope holding the read binding (walking up)."""
    out = []
    s = use_scope
    if owner_scope is None:
        owner_scope = -1
    if s == owner_scope:
        return out
    s = src.scopes[s]["parent"]
    while s is not None and s != owner_scope:
        out.append(src.scopes[s]["kind"])
        s = src.scopes[s]["parent"]
    return out


def shard(ctx):
    if ctx.shard == 0:
        for shape in exhaustive_depth1()[:: (1 if ctx.tier == "thorough" else 6)]:
            if ctx.out_of_time(0.4):
                break
            try:
                run_case(ctx, shape)
            except core.Violation as v:
                ctx.violations.append({"sig": v.sig, "detail": v.detail, "case": v.case})
                ctx.ignore_sigs.add(v.sig)
            ctx.cls("exhaustive-depth1")
    core.drive(ctx, shapes(), lambda c: run_case(ctx, c), EXAMPLES[ctx.tier])


def replay(ctx, case):
    run_case(ctx, case["shape"])
