"""C14 — a crash of the helper process is contained and recovered from."""
import gc
import os
import sys
import time
import signal
from .. import boot, core, api

ID = "C14"
LEVEL = "fault_enumeration"
BUDGET = {"quick": 150, "thorough": 1500}
RULE = ("fault enumeration: for each scenario (a query that needs the helper process) the number N of requests sent to "
        "the helper is measured in an undisturbed run; then for every request index k <= N (all k in thorough, every "
        "k up to 12 plus a stride beyond in quick) and every phase in {killed before the request is written (SIGKILL, "
        "waited for), killed after the request was written and before the reply is read, reply cut half-way, helper "
        "exits after reading the request, exception escapes the helper's listener loop} x {1, 2, 3 consecutive "
        "crashes} the disturbed queries must each either succeed or raise jedi.InternalError and nothing else within "
        "30 s, the next Script on the same Environment must return the undisturbed answer, and afterwards no child is "
        "a zombie, the fd count is back to baseline and every helper pid is gone; plus create/drop sequences of "
        "Scripts with the helper-side inference-state count observed. Faults are injected from the harness "
        "(CompiledSubprocess._send / pickle_dump wrapped; helper started through vlib/child_main.py which runs the "
        "repository's unmodified Listener). Non-trivial: the fault fired and a later Script was served by a different "
        "helper pid; distinct = (scenario, k, phase, repeat).")
ASSUMPTIONS = ["SIGKILL / os._exit / a half-written pickle are faithful stand-ins for the ways a helper can die",
               "the harness observes requests at CompiledSubprocess._send, the single choke point of the channel",
               "30 s per query is far above the observed 0.3 s; a breach is re-run alone before being reported"]

SCENARIOS = [
    ("import math\nmath.sq", "complete"),
    ("import _socket\n_socket.", "complete"),
    ("len(", "get_signatures"),
    ("import sys\nsys.path", "infer"),
    ("import itertools\nitertools.chain.from_iterable", "goto"),
    ("import time\ntime.sleep(", "get_signatures"),
    ("import zlib\nzlib.compress", "help"),
    ("import array\narray.array('i').app", "complete"),
    ("import os\nos.getcwd().upp", "complete"),
    ("import _collections\n_collections.deque().", "complete"),
    ("import binascii as b\nb.hexl", "complete"),
    ("import math\nmath.pi.real", "infer"),
]
PHASES = ["before_send", "after_send", "truncate", "exit", "raise"]
# queries that reach the helper (module search, sys.path) but never receive a handle to a helper-side object: the
# state-count sequences interleave them with the ones above
HANDLELESS = [("import jso", "complete"), ("import json\njson.lo", "complete"), ("from . import ", "complete"),
              ("import collections.a", "complete"), ("import email.mime\nemail.mime.", "complete")]

_state = {"armed": None, "count": 0, "fired": 0, "pids": set()}
_patched = [False]


def _child_alive(pid):
    try:
        with open("/proc/%d/stat" % pid) as f:
            return f.read().split(")")[-1].split()[0]
    except OSError:
        return None


def _kill_and_wait_dead(proc):
    os.kill(proc.pid, signal.SIGKILL)
    for _ in range(2000):
        st = _child_alive(proc.pid)
        if st is None or st == "Z":
            return
        time.sleep(0.002)


def patch():
    if _patched[0]:
        return
    _patched[0] = True
    boot.jedi_boot()
    import jedi.inference.compiled.subprocess as sp
    from jedi.inference.compiled.subprocess import functions

    def _vp_state_count(*args):          # parent-side stub so that the function pickles by reference
        raise RuntimeError("only meaningful inside the helper")
    _vp_state_count.__module__ = functions.__name__
    _vp_state_count.__qualname__ = "_vp_state_count"
    functions._vp_state_count = _vp_state_count
    orig_send = sp.CompiledSubprocess._send
    orig_dump = sp.pickle_dump

    def send(self, inference_state_id, function, args=(), kwargs={}):
        if not self.is_crashed:
            try:
                _state["pids"].add(self._get_process().pid)
            except Exception:
                pass
        _state["count"] += 1
        plan = _state["armed"]
        if plan and plan["phase"] == "before_send" and _state["count"] == plan["k"] and not self.is_crashed:
            _state["armed"] = None
            _state["fired"] += 1
            _kill_and_wait_dead(self._get_process())
        elif plan and plan["phase"] == "after_send" and _state["count"] == plan["k"] and not self.is_crashed:
            plan["now"] = True
        return orig_send(self, inference_state_id, function, args, kwargs)

    def dump(data, file, protocol):
        orig_dump(data, file, protocol)
        plan = _state["armed"]
        if plan and plan.get("now"):
            _state["armed"] = None
            _state["fired"] += 1
            import subprocess as _sub
            for obj in gc.get_objects():
                if isinstance(obj, _sub.Popen) and obj.stdin is file:
                    _kill_and_wait_dead(obj)

    sp.CompiledSubprocess._send = send
    sp.pickle_dump = dump
    sp._MAIN_PATH = str(boot.VERIF / "vlib" / "child_main.py")
    os.environ["VERIF_C14_JEDI_PARENT"] = str(boot.REPO)


def ser(res, method):
    return api.ser_result(method, res)


def run_query(env, code, method):
    jedi = boot.jedi_boot()
    s = jedi.Script(code, environment=env)
    res = getattr(s, method)()
    return ser(res, method)


def fds():
    return len(os.listdir("/proc/self/fd"))


def zombies():
    me = os.getpid()
    out = []
    for p in os.listdir("/proc"):
        if p.isdigit():
            try:
                with open("/proc/%s/stat" % p) as f:
                    rest = f.read().split(")")[-1].split()
                if rest[0] == "Z" and int(rest[1]) == me:
                    out.append(int(p))
            except OSError:
                pass
    return out


def one_run(ctx, scen_idx, k, phase, repeat, baseline=None):
    """Returns list of (sig, detail)."""
    jedi = boot.jedi_boot()
    from jedi.api.exceptions import InternalError
    patch()
    code, method = SCENARIOS[scen_idx]
    devs = []
    gc.collect()
    fd0 = fds()
    _state.update(armed=None, count=0, fired=0, pids=set())
    child_side = phase in ("truncate", "exit", "raise")
    # the handshake (_get_info) is request 1 of every helper: the plan's k counts requests of the *query*
    if child_side:
        os.environ["VERIF_C14_PLAN"] = "%s:%d" % (phase, k + 1)
    else:
        os.environ.pop("VERIF_C14_PLAN", None)
    env = jedi.create_environment("/venv/bin/python", safe=False)
    os.environ.pop("VERIF_C14_PLAN", None)
    first_pid = next(iter(_state["pids"]), None)
    # a caller that keeps something made before the crash (a Script's inference state references the helper object):
    # the dead helper's pipes must be closed when its death is handled, not whenever the last reference goes away
    held = env._subprocess
    gc.collect()
    fd_live = fds()
    outcomes = []
    for r in range(repeat):
        _state["count"] = 0
        if not child_side:
            _state["armed"] = {"phase": phase, "k": k if r == 0 else min(k, 2) + 1}
        elif r > 0:
            os.environ["VERIF_C14_PLAN"] = "%s:%d" % (phase, min(k, 2) + 1)
        t0 = time.time()
        try:
            with core.time_limit(30):
                ans = run_query(env, code, method)
            outcomes.append("ok")
            if baseline is not None and ans != baseline:
                devs.append(("disturbed-query-returned-different-answer:%s" % phase, "%r k=%d -> %s vs %s" % (code, k, ans[:2], baseline[:2])))
        except InternalError:
            outcomes.append("InternalError")
        except core.Inconclusive:
            outcomes.append("hang")
            devs.append(("query-hangs-after-helper-death:%s" % phase, "%r k=%d repeat=%d" % (code, k, r)))
        except Exception as e:
            outcomes.append(type(e).__name__)
            devs.append(("exception-is-not-InternalError:%s:%s" % (phase, type(e).__name__), "%r k=%d repeat=%d: %s" % (code, k, r, api.tb_tail(e, 5))))
        finally:
            os.environ.pop("VERIF_C14_PLAN", None)
            _state["armed"] = None
    fired = _state["fired"] or (child_side and "InternalError" in outcomes) or any(o not in ("ok",) for o in outcomes)
    # recovery: the next Script on the same environment.  A death that did not fail the disturbed query itself (the
    # helper had already answered) may still cost ONE later query: "at most one query fails" per crash.
    budget = max(0, _state["fired"] - sum(1 for o in outcomes if o == "InternalError"))
    after = None
    for attempt in range(budget + 1):
        try:
            with core.time_limit(30):
                after = run_query(env, code, method)
            break
        except InternalError as e:
            if attempt == budget:
                devs.append(("no-recovery:%s:InternalError" % phase, "%r k=%d outcomes=%s fired=%d: %s" % (code, k, outcomes, _state["fired"], api.tb_tail(e, 3))))
        except core.Inconclusive:
            devs.append(("query-hangs-after-recovery:%s" % phase, "%r k=%d" % (code, k)))
            break
        except Exception as e:
            devs.append(("no-recovery:%s:%s" % (phase, type(e).__name__), "%r k=%d: %s" % (code, k, api.tb_tail(e, 5))))
            break
    if after is not None and baseline is not None and after != baseline:
        devs.append(("answer-after-recovery-differs:%s" % phase, "%r k=%d" % (code, k)))
    pids = set(_state["pids"])
    served_by_other = len(pids) >= 2
    if after is not None and not devs:
        gc.collect()
        fd_mid = fds()
        if fd_mid > fd_live:
            devs.append(("pipes-of-dead-helper-open-while-still-referenced:%s" % phase,
                         "%r k=%d: %d fds with one live helper before the crash, %d with one live helper after recovery" % (code, k, fd_live, fd_mid)))
    del held
    # release everything and look at the process table
    sub = env._subprocess
    del env
    if sub is not None:
        sub._cleanup_callable()
    del sub
    gc.collect()
    time.sleep(0.02)
    z = zombies()
    if z:
        devs.append(("zombie-helper-left:%s" % phase, "pids %s" % z))
    alive = [p for p in pids if _child_alive(p) not in (None,)]
    if alive:
        devs.append(("helper-still-alive-after-release:%s" % phase, "pids %s states %s" % (alive, [_child_alive(p) for p in alive])))
    fd1 = fds()
    if fd1 > fd0:
        gc.collect()
        fd1 = fds()
        if fd1 > fd0:
            devs.append(("fd-leak:%s" % phase, "%d -> %d" % (fd0, fd1)))
    ctx.count()
    ctx.cls("phase:" + phase, "repeat:%d" % repeat, "outcome:" + "+".join(sorted(set(outcomes))))
    if fired and served_by_other:
        ctx.nontriv([scen_idx, k, phase, repeat])
    ctx.sample({"scenario": code, "method": method, "k": k, "phase": phase, "repeat": repeat, "outcomes": outcomes,
                "helper_pids": len(pids)}, limit=6)
    return devs


def measure(scen_idx):
    """(number of requests of the query, undisturbed answer)."""
    jedi = boot.jedi_boot()
    patch()
    code, method = SCENARIOS[scen_idx]
    _state.update(armed=None, count=0, fired=0, pids=set())
    os.environ.pop("VERIF_C14_PLAN", None)
    env = jedi.create_environment("/venv/bin/python", safe=False)
    _state["count"] = 0
    ans = run_query(env, code, method)
    n = _state["count"]
    sub = env._subprocess
    del env
    sub._cleanup_callable()
    return n, ans


def state_count_run(ctx, n_scripts):
    """Create and drop Scripts; the helper-side number of live inference states must not grow with the history."""
    jedi = boot.jedi_boot()
    patch()
    from jedi.inference.compiled.subprocess import functions
    os.environ.pop("VERIF_C14_PLAN", None)
    env = jedi.create_environment("/venv/bin/python", safe=False)
    devs = []
    worst = 0
    for i in range(n_scripts):
        pool = SCENARIOS + HANDLELESS
        code, method = pool[(i * 7) % len(pool)] if (i // 20) % 2 == 0 else HANDLELESS[i % len(HANDLELESS)]
        ctx.cls("state-count-script:" + ("handleless" if (code, method) in HANDLELESS else "with-handles"))
        s = jedi.Script(code, environment=env)
        getattr(s, method)()
        del s
        if i % 10 == 9:
            gc.collect()
            keep = jedi.Script("import math\nmath.pi", environment=env)
            keep.infer()
            cnt = env._get_subprocess()._send(None, functions._vp_state_count)
            worst = max(worst, cnt)
            del keep
            if cnt > 3:
                devs.append(("helper-side-state-not-released", "after %d scripts the helper holds %d inference states" % (i + 1, cnt)))
                break
    ctx.count()
    ctx.cls("state-count-sequence")
    ctx.nontriv(["state-count", n_scripts, ctx.shard])
    ctx.extra["max_helper_states_observed"] = max(ctx.extra.get("max_helper_states_observed", 0), worst)
    sub = env._subprocess
    del env
    sub._cleanup_callable()
    return devs


def plan_cells(tier):
    cells = []
    scens = range(len(SCENARIOS)) if tier == "thorough" else (0, 1, 2, 4, 5, 7)
    for si in scens:
        cells.append(("measure", si))
    return list(scens)


def shard(ctx):
    scens = plan_cells(ctx.tier)
    work = []
    for si in scens:
        n, base = measure(si)
        ks = list(range(1, n + 1))
        if ctx.tier == "quick":
            ks = [k for k in ks if k <= 16 or k % 3 == 0 or k == n]
        for k in ks:
            for phase in PHASES:
                reps = (1, 2, 3) if ctx.tier == "thorough" else ((1, 2, 3) if k <= 2 else (1,))
                for rep in reps:
                    work.append((si, k, phase, rep, base, n))
    ctx.extra["cells_total"] = len(work) if ctx.shard == 0 else 0
    mine = work[ctx.shard::ctx.nshards]
    done = 0
    for si, k, phase, rep, base, n in mine:
        if ctx.out_of_time(0.85):
            ctx.extra["enumeration_cut_short_by_budget"] = 1
            break
        case = {"scenario": si, "k": k, "phase": phase, "repeat": rep}
        try:
            for sig, detail in one_run(ctx, si, k, phase, rep, base):
                ctx.judge(sig, detail, case)
        except core.Violation as v:
            ctx.violations.append({"sig": v.sig, "detail": v.detail, "case": v.case})
            ctx.ignore_sigs.add(v.sig)
        done += 1
    ctx.extra["cells_run"] = ctx.extra.get("cells_run", 0) + done
    if ctx.shard < (16 if ctx.tier == "thorough" else 2):
        case = {"state_count": 200 if ctx.tier == "thorough" else 60}
        try:
            for sig, detail in state_count_run(ctx, case["state_count"]):
                ctx.judge(sig, detail, case)
        except core.Violation as v:
            ctx.violations.append({"sig": v.sig, "detail": v.detail, "case": v.case})


EXHAUSTIVE = {"quick": False, "thorough": True}


def replay(ctx, case):
    if "state_count" in case:
        devs = state_count_run(ctx, case["state_count"])
    else:
        n, base = measure(case["scenario"])
        devs = one_run(ctx, case["scenario"], case["k"], case["phase"], case["repeat"], base)
    for sig, detail in devs:
        ctx.judge(sig, detail, case)
