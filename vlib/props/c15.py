"""C15 — inference gives up instead of recursing or exploding."""
from hypothesis import strategies as st
from .. import boot, core, api

ID = "C15"
LEVEL = "exploration"
BUDGET = {"quick": 150, "thorough": 1500}
EXAMPLES = {"quick": 150, "thorough": 4000}
RULE = ("(a) cases = self-referential programs composed from 2-6 cycle templates (assignment cycles, mutual/unbounded "
        "recursion, self/cyclic inheritance, containers containing themselves, recursive decorators, properties, "
        "generators, __getattr__->getattr, lambdas, tuple swaps, import cycles over 1-3 modules) wired together through "
        "shared names; every query method is asked at every use. (b) scaling families for n = 1,2,4,...,64 "
        "(assignment chain, call chain, binary call tree, diamond-inheritance ladder, tuple-index chain, if/else diamond "
        "chain, nested comprehension, decorator stack, import chain, attribute chain). Oracle: a deterministic step "
        "counter installed by the harness on _infer_node / InferenceState.execute / py__getattribute__ / "
        "import_module / py__mro__; no RecursionError, steps <= 200000 per query, steps(2n) <= 4.5*steps(n)+500 for "
        "n>=4 and steps(64) <= 50*64^2+5000; a 60 s watchdog per query backs the counter (a hit that reproduces "
        "alone is a violation of 'no hang'). Non-trivial: a cycle is reachable from the queried use, or n >= 16; "
        "distinct = hash(sources, query).")
ASSUMPTIONS = ["the wrapped choke points see all inference work (the wall-clock watchdog is the back-stop for loops that bypass them)",
               "exceptions other than RecursionError are C01's subject and only counted here", "vendored typeshed"]

STEPS = {"n": 0}
_installed = [False]


def install_counter():
    if _installed[0]:
        return
    _installed[0] = True
    boot.jedi_boot()
    import jedi.inference.syntax_tree as stt
    import jedi.inference as inf
    import jedi.inference.context as ctxm
    import jedi.inference.imports as imp
    import jedi.inference.value.klass as klass

    def wrap(mod, name, static=False):
        orig = getattr(mod, name)

        def counted(*a, **kw):
            STEPS["n"] += 1
            return orig(*a, **kw)
        counted.__wrapped__ = orig
        setattr(mod, name, staticmethod(counted) if static else counted)
    wrap(stt, "_infer_node")
    wrap(inf.InferenceState, "execute", static=True)
    wrap(ctxm.AbstractContext, "py__getattribute__")
    wrap(imp, "import_module")
    orig_mro = klass.ClassMixin.py__mro__

    def mro(self):
        for c in orig_mro(self):
            STEPS["n"] += 1
            yield c
    klass.ClassMixin.py__mro__ = mro


TEMPLATES = {
    "assign2": "{a} = {b}\n{b} = {a}\n",
    "assign3": "{a} = {b}\n{b} = {c}\n{c} = {a}\n",
    "selfcall": "def {a}(arg):\n    return {a}(arg)\n",
    "mutual": "def {a}():\n    return {b}()\ndef {b}():\n    return {a}()\n",
    "retself": "def {a}():\n    return {a}\n",
    "inherit2": "class {A}({B}):\n    pass\nclass {B}({A}):\n    pass\n",
    "inheritself": "class {A}({A}):\n    attr_{a} = 1\n",
    "listself": "{a} = [{a}]\n{b} = []\n{b}.append({b})\n",
    "dictself": "{a} = {{}}\n{a}['k'] = {a}\n{b} = {a}['k']['k']\n",
    "deco": "def {a}(func):\n    return {a}(func)\n@{a}\ndef {b}():\n    return 1\n",
    "deco2": "def {a}(func):\n    return {b}\n@{a}\ndef {b}():\n    return {b}()\n",
    "prop": "class {A}:\n    @property\n    def {a}(self):\n        return self.{a}\n{b} = {A}().{a}\n",
    "gen": "def {a}():\n    yield from {a}()\n{b} = list({a}())\n",
    "getattr": "class {A}:\n    def __getattr__(self, name):\n        return getattr(self, name)\n{b} = {A}().whatever.more\n",
    "lam": "{a} = lambda: {a}()\n{b} = {a}()\n",
    "swap": "{a}, {b} = {b}, {a}\n",
    "selfattr": "class {A}:\n    def __init__(self):\n        self.{a} = self.{a}\n        self.{b} = {A}().{b}\n{c} = {A}().{a}\n",
    "augloop": "{a} = 0\nfor {b} in {a}, {b}:\n    {a} = {a} + {b}\n",
    "whileattr": "{a} = {b}\nwhile {a}:\n    {a} = {a}.next\n",
    "compself": "{a} = [{a} for {a} in {a}]\n",
    "callarg": "def {a}(first=None):\n    return {a}({a}(first))\n{b} = {a}({a})\n",
    "classcall": "class {A}:\n    def __call__(self):\n        return {A}()()\n{b} = {A}()()()\n",
    "iterself": "class {A}:\n    def __iter__(self):\n        return iter({A}())\n    def __next__(self):\n        return next(self)\nfor {b} in {A}():\n    pass\n",
    "superloop": "class {A}:\n    def meth(self):\n        return super().meth()\nclass {B}({A}):\n    def meth(self):\n        return {A}.meth(self) or self.meth()\n{c} = {B}().meth()\n",
    "getitemself": "class {A}:\n    def __getitem__(self, key):\n        return self[key]\n{b} = {A}()[0][1]\n",
    "withself": "class {A}:\n    def __enter__(self):\n        return self.__enter__()\n    def __exit__(self, *a):\n        pass\nwith {A}() as {b}:\n    pass\n",
}
NAMES = ["alpha", "bravo", "carol", "delta", "echo", "fable", "gamma", "hotel"]


@st.composite
def cyclic_programs(draw):
    k = draw(st.integers(2, 6))
    mods = draw(st.integers(1, 3))
    sources = {("mod%d" % i): [] for i in range(mods)}
    uses = []
    pool = list(NAMES)
    for i in range(k):
        t = draw(st.sampled_from(sorted(TEMPLATES)))
        a, b, c = draw(st.permutations(pool))[:3]
        m = "mod%d" % draw(st.integers(0, mods - 1))
        src = TEMPLATES[t].format(a=a, b=b, c=c, A=a.capitalize(), B=b.capitalize())
        sources[m].append(src)
        uses.append((m, draw(st.sampled_from([a, b, a.capitalize() + "()", b + "()", a + "[0]", b + ".attr"]))))
    files = {}
    for i in range(mods):
        m = "mod%d" % i
        head = ""
        if mods > 1:
            other = "mod%d" % ((i + 1) % mods)
            form = draw(st.sampled_from(["from %s import *", "import %s", "from %s import alpha, bravo"]))
            head = (form % other) + "\n"
        files[m + ".py"] = head + "".join(sources[m])
    return {"kind": "cyclic", "files": files, "uses": uses}


def family(name, n):
    L = []
    if name == "assign_chain":
        L.append("v0 = 1")
        L += ["v%d = v%d" % (i, i - 1) for i in range(1, n + 1)]
        use = "v%d" % n
    elif name == "call_chain":
        L.append("def f0(a):\n    return a")
        L += ["def f%d(a):\n    return f%d(a)" % (i, i - 1) for i in range(1, n + 1)]
        use = "f%d(1)" % n
    elif name == "binary_tree":
        L.append("def f0(a):\n    return a")
        L += ["def f%d(a):\n    return f%d(a) or f%d(a)" % (i, i - 1, i - 1) for i in range(1, n + 1)]
        use = "f%d(1)" % n
    elif name == "diamond_ladder":
        L.append("class A0:\n    base_attr = 1")
        for i in range(1, n + 1):
            L += ["class B%d(A%d):\n    pass" % (i, i - 1), "class C%d(A%d):\n    pass" % (i, i - 1), "class A%d(B%d, C%d):\n    pass" % (i, i, i)]
        use = "A%d()." % n
    elif name == "tuple_chain":
        L.append("t0 = (1, 'a')")
        L += ["t%d = (t%d[0], t%d[1])" % (i, i - 1, i - 1) for i in range(1, n + 1)]
        use = "t%d[0]" % n
    elif name == "if_diamond":
        L.append("x0 = 1")
        L += ["if flag:\n    x%d = x%d\nelse:\n    x%d = x%d" % (i, i - 1, i, i - 1) for i in range(1, n + 1)]
        use = "x%d" % n
    elif name == "nested_comp":
        e = "elem"
        for i in range(n):
            e = "[%s for loop%d in range(2)]" % (e, i)
        L.append("elem = 1\nnested = %s" % e)
        use = "nested" + "[0]" * min(n, 5)
    elif name == "decorator_stack":
        L.append("def deco(func):\n    return func")
        L.append("\n".join(["@deco"] * n) + "\ndef target(arg):\n    return arg")
        use = "target(1)"
    elif name == "attr_chain":
        L.append("class Node:\n    def __init__(self, nxt):\n        self.nxt = nxt\n        self.val = 1")
        L.append("node = Node(None)")
        L += ["node = Node(node)" for _ in range(n)]
        use = "node" + ".nxt" * min(n, 30) + ".val"
    elif name == "import_chain":
        files = {"m0.py": "value = 1\n"}
        for i in range(1, n + 1):
            files["m%d.py" % i] = "from m%d import value\n" % (i - 1)
        files["main.py"] = "from m%d import value\nvalue\n" % n
        return files, "main.py", ("value", "infer")
    return {"main.py": "\n".join(L) + "\n" + use + "\n"}, "main.py", (use, "complete" if use.endswith(".") else "infer")


FAMILIES = ["assign_chain", "call_chain", "binary_tree", "diamond_ladder", "tuple_chain", "if_diamond", "nested_comp",
            "decorator_stack", "attr_chain", "import_chain"]


def query(script_factory, method, line, col):
    STEPS["n"] = 0
    s = script_factory()
    res = getattr(s, method)(line, col)
    for r in (res[:3] if isinstance(res, list) else [res]):
        r.name, r.type
    return STEPS["n"]


def run_cyclic(ctx, case):
    jedi = boot.jedi_boot()
    install_counter()
    root = boot.fresh_dir("c15")
    for rel, text in case["files"].items():
        (root / rel).write_text(text)
    project = jedi.Project(str(root))
    devs = []
    for m, use in case["uses"]:
        text = case["files"][m + ".py"] + use + "\n" + use + ".\n"
        path = str(root / (m + ".py"))
        nlines = text.count("\n")
        for method, (line, col) in (("infer", (nlines - 1, len(use))), ("goto", (nlines - 1, len(use))), ("complete", (nlines, len(use) + 1)),
                                    ("help", (nlines - 1, len(use))), ("get_signatures", (nlines - 1, len(use))),
                                    ("get_references", (nlines - 1, 1))):
            ctx.count()
            try:
                with core.time_limit(60):
                    steps = query(lambda: boot.fresh_script(text, path=path, project=project), method, line, col)
            except RecursionError as e:
                import re as _re
                base = _re.match(r"\w+", use).group(0).lower()
                cyc = len(case["files"]) > 1 and any(" import alpha, bravo" in t_.split("\n")[0]
                                                     for t_ in case["files"].values()) and base in ("alpha", "bravo")
                shape = ":name-imported-through-a-from-import-cycle" if cyc else ""
                devs.append(("RecursionError:%s%s" % (method, shape), "%r in %s: %s" % (use, m, api.tb_tail(e, 3))))
                continue
            except core.Inconclusive:
                devs.append(("no-return-within-60s:%s" % method, "%r in %s" % (use, m)))
                continue
            except Exception as e:
                ctx.cls("other-exception(C01):" + type(e).__name__)
                continue
            ctx.extra["max_steps_cyclic"] = max(ctx.extra.get("max_steps_cyclic", 0), steps)
            if steps > 200000:
                devs.append(("step-bound-exceeded:%s" % method, "%r in %s: %d steps" % (use, m, steps)))
            ctx.nontriv([case["files"], m, use, method])
    ctx.sample({"files": case["files"], "uses": case["uses"]}, limit=3)
    for sig, detail in devs:
        ctx.judge(sig, detail, case)


def run_family(ctx, case):
    jedi = boot.jedi_boot()
    install_counter()
    name = case["family"]
    steps = {}
    devs = []
    for n in (1, 2, 4, 8, 16, 32, 64):
        files, main, (use, method) = family(name, n)
        root = boot.fresh_dir("c15f")
        for rel, text in files.items():
            (root / rel).write_text(text)
        project = jedi.Project(str(root))
        text = files[main]
        line = text.count("\n")
        col = len(text.rstrip("\n").split("\n")[-1])
        ctx.count()
        try:
            with core.time_limit(60):
                steps[n] = query(lambda: boot.fresh_script(text, path=str(root / main), project=project), method, line, col)
        except RecursionError as e:
            devs.append(("RecursionError:family:" + name, "n=%d: %s" % (n, api.tb_tail(e, 3))))
            break
        except core.Inconclusive:
            devs.append(("no-return-within-60s:family:" + name, "n=%d (steps so far %s)" % (n, steps)))
            break
        except Exception as e:
            ctx.cls("other-exception(C01):" + type(e).__name__)
            break
        if n >= 16:
            ctx.nontriv([name, n])
    for n in (4, 8, 16, 32):
        if n in steps and 2 * n in steps and steps[2 * n] > 4.5 * steps[n] + 500:
            devs.append(("super-polynomial-growth:" + name, "steps %s" % steps))
            break
    if 64 in steps and steps[64] > 50 * 64 * 64 + 5000:
        devs.append(("step-bound-at-64:" + name, "steps %s" % steps))
    ctx.cls("family:" + name)
    ctx.extra["family_steps:" + name] = str(steps)
    ctx.sample({"family": name, "steps_by_n": steps}, limit=10)
    for sig, detail in devs:
        ctx.judge(sig, detail, case)


def run_case(ctx, case):
    if case.get("kind") == "family":
        return run_family(ctx, case)
    return run_cyclic(ctx, case)


def shard(ctx):
    for i, name in enumerate(FAMILIES):
        if i % ctx.nshards == ctx.shard:
            case = {"kind": "family", "family": name}
            try:
                run_family(ctx, case)
            except core.Violation as v:
                ctx.violations.append({"sig": v.sig, "detail": v.detail, "case": v.case})
                ctx.ignore_sigs.add(v.sig)
    core.drive(ctx, cyclic_programs(), lambda c: run_case(ctx, c), EXAMPLES[ctx.tier])


def replay(ctx, case):
    run_case(ctx, case)
