"""C10 — import statements resolve to what Python's import system would load."""
import os
import json
import subprocess
from pathlib import Path
from hypothesis import strategies as st
from .. import boot, core, api, projgen

ID = "C10"
LEVEL = "exploration"
BUDGET = {"quick": 140, "thorough": 1500}
EXAMPLES = {"quick": 170, "thorough": 2500}
RULE = ("cases = generated layouts (1-3 sys.path roots in drawn order, optionally their common parent as a further "
        "root; per node module / regular package / namespace package / module+package clash; names reused across "
        "roots; marker-only files) x 12 import statements per layout over the forms import a.b / import a.b as c / "
        "from a import b / from a import NAME / from a import * / relative imports of level 1-3, issued from a "
        "top-level script and from modules inside packages; oracle = the same statement executed by a fresh CPython "
        "whose sys.path is the Script's effective path: the file (or namespace-ness, or ModuleNotFoundError => nothing) "
        "must agree with infer / goto(follow_imports=True); plus transform_path_to_dotted(sys_path, file) must import "
        "back to file for every unshadowed file. Non-trivial: >=2 candidates for the imported top-level name exist, a "
        "namespace package is involved, or the import is relative with level>=2; distinct = hash(layout, statement).")
ASSUMPTIONS = ["importlib of CPython 3.12 in a fresh interpreter is the oracle; marker files have no import-time effects",
               "relative imports beyond the top-level package (ImportError, not ModuleNotFoundError) are not judged",
               "vendored typeshed"]

ORACLE = r'''
import sys, json, importlib, importlib.util, os
spec = json.load(open(sys.argv[1]))
sys.path[:0] = spec["sys_path"]
sys.dont_write_bytecode = True
out = {}
def describe(obj):
    import types
    if isinstance(obj, types.ModuleType):
        f = getattr(obj, "__file__", None)
        if f is None:
            return {"kind": "namespace", "paths": [os.path.realpath(p) for p in list(obj.__path__)]}
        return {"kind": "module", "file": os.path.realpath(f)}
    return {"kind": "value", "value": obj if isinstance(obj, str) else repr(type(obj))}
for q in spec["queries"]:
    try:
        if q["what"] == "stmt":
            g = {"__name__": q["name"], "__package__": q["package"], "__file__": q["file"], "__builtins__": __builtins__}
            exec(q["stmt"], g)
            v = g
            for part in q["bound"].split("."):
                v = v[part] if isinstance(v, dict) else getattr(v, part)
            out[q["id"]] = describe(v)
        else:
            m = importlib.import_module(q["dotted"])
            out[q["id"]] = describe(m)
    except ModuleNotFoundError as e:
        out[q["id"]] = {"kind": "ModuleNotFoundError"}
    except ImportError as e:
        out[q["id"]] = {"kind": "ImportError", "msg": str(e)[:80]}
    except Exception as e:
        out[q["id"]] = {"kind": "other", "msg": type(e).__name__ + ": " + str(e)[:80]}
json.dump(out, open(sys.argv[2], "w"))
'''


@st.composite
def cases(draw):
    layout = draw(projgen.layouts())
    names = projgen.dotted_names(layout)
    stmts = []
    pyfiles = sorted(f for f in layout["files"] if f.count("/") >= 2)
    for _ in range(12):
        form = draw(st.sampled_from(["import", "import_as", "from_sub", "from_name", "star", "rel1", "rel2", "rel_name", "missing"]))
        target = draw(st.sampled_from(names)) if names else "alpha"
        importer = None
        if form.startswith("rel") or draw(st.integers(0, 3)) == 0:
            if pyfiles:
                importer = draw(st.sampled_from(pyfiles))
        if form.startswith("rel") and importer is None:
            form = "import"
        sib = draw(st.sampled_from(projgen.NODE_NAMES))
        if form == "import":
            st_, bound = "import %s" % target, target
        elif form == "import_as":
            st_, bound = "import %s as bound_alias" % target, "bound_alias"
        elif form == "from_sub" and "." in target:
            pkg, sub = target.rsplit(".", 1)
            st_, bound = "from %s import %s" % (pkg, sub), sub
        elif form == "from_name":
            st_, bound = "from %s import NAME" % target, "NAME"
        elif form == "star":
            st_, bound = "from %s import *" % target, "NAME"
        elif form == "rel1":
            st_, bound = "from . import %s" % sib, sib
        elif form == "rel2":
            lvl = draw(st.integers(2, 3))
            deep = [f for f in pyfiles if f.count("/") >= lvl + 1]     # importers whose level-lvl parent is still a package
            if deep and draw(st.integers(0, 3)) > 0:
                importer = draw(st.sampled_from(deep))
            if draw(st.booleans()):
                st_, bound = "from %s import %s" % ("." * lvl, sib), sib
            else:
                st_, bound = "from %s%s import %s" % ("." * lvl, draw(st.sampled_from(projgen.NODE_NAMES)), sib), sib
        elif form == "rel_name":
            st_, bound = "from .%s import NAME" % sib, "NAME"
        elif form == "missing":
            st_, bound = "import %s.nosuchmod" % target, "%s.nosuchmod" % target
        else:
            st_, bound = "import %s" % target, target
        stmts.append({"form": form, "stmt": st_, "bound": bound, "importer": importer})
    return {"layout": layout, "stmts": stmts, "smart": draw(st.sampled_from([False, False, True]))}


def run_oracle(root, sys_path, queries):
    spec = root / "_oracle_spec.json"
    out = root / "_oracle_out.json"
    prog = root / "_oracle.py"
    prog.write_text(ORACLE)
    spec.write_text(json.dumps({"sys_path": sys_path, "queries": queries}))
    if out.exists():
        out.unlink()
    subprocess.run(["/venv/bin/python", "-I", "-X", "utf8", str(prog), str(spec), str(out)], timeout=60,
                   stdout=subprocess.DEVNULL, stderr=subprocess.DEVNULL, env={"PATH": "/usr/bin:/bin", "PYTHONDONTWRITEBYTECODE": "1"}, cwd=str(root))
    if not out.exists():
        return None
    return json.loads(out.read_text())


def run_case(ctx, case):
    jedi = boot.jedi_boot()
    from jedi.inference.sys_path import transform_path_to_dotted
    top = Path(os.path.realpath(boot.fresh_dir("c10")))
    tree = top / "t"
    tree.mkdir()
    layout = case["layout"]
    for d in layout["dirs"]:
        (tree / d).mkdir(parents=True, exist_ok=True)
    for rel, text in layout["files"].items():
        p = tree / rel
        p.parent.mkdir(parents=True, exist_ok=True)
        p.write_text(text)
    roots = [str(tree if r == "." else tree / r) for r in layout["roots"]]
    proj_dir = top / "projdir"
    proj_dir.mkdir()
    project = jedi.Project(str(proj_dir), sys_path=list(roots), smart_sys_path=case["smart"])
    script_top = proj_dir / "script_top.py"
    devs = []
    queries, plans = [], []
    with core.time_limit(200):
        probe = boot.fresh_script("", path=str(script_top), project=project)
        eff = [p for p in probe._inference_state.get_sys_path()]
        # importer identities
        for i, s in enumerate(case["stmts"]):
            if s["importer"]:
                parts = s["importer"].split("/")
                fpath = tree / s["importer"]
                mod_parts = parts[1:-1] + ([] if parts[-1] == "__init__.py" else [parts[-1][:-3]])
                name = ".".join(mod_parts)
                package = name if parts[-1] == "__init__.py" else ".".join(mod_parts[:-1])
                queries.append({"id": "self%d" % i, "what": "dotted", "dotted": name})
            else:
                fpath, name, package = script_top, "__main__", None
            queries.append({"id": "q%d" % i, "what": "stmt", "stmt": s["stmt"], "bound": s["bound"], "name": name,
                            "package": package, "file": str(fpath)})
            plans.append((i, s, fpath, name))
        # transform_path_to_dotted round trip
        tp = []
        for rel in sorted(layout["files"]):
            f = tree / rel
            try:
                names, is_pkg = transform_path_to_dotted(eff, f)
            except Exception as e:
                devs.append((api.bucket(e, "transform_path_to_dotted"), api.tb_tail(e)))
                continue
            parts = rel.split("/")
            mod = parts[:-1] + ([] if parts[-1] == "__init__.py" else [parts[-1][:-3]])
            for k, cut in enumerate((0, 1)):     # name relative to the common parent ('.' root) / to its own top directory
                own = mod[cut:]
                queries.append({"id": "own%d:%s" % (k, rel), "what": "dotted", "dotted": ".".join(own) or "?"})
            if names:
                queries.append({"id": "tp:" + rel, "what": "dotted", "dotted": ".".join(names)})
            tp.append((rel, names))
        ora = run_oracle(top, eff, queries)
        if ora is None:
            ctx.discard("oracle process failed")
            return
        ctx.count()
        for rel, names in tp:
            f = os.path.realpath(str(tree / rel))
            owns = [ora.get("own%d:%s" % (k, rel), {}) for k in (0, 1)]
            if not any(o.get("kind") == "module" and o.get("file") == f for o in owns):
                ctx.cls("file-shadowed-or-not-importable")
                continue        # the file is not importable under its own root-relative name: outside the clause
            ctx.extra["dotted_round_trips"] = ctx.extra.get("dotted_round_trips", 0) + 1
            if not names:
                devs.append(("transform_path_to_dotted-none-for-importable-file", rel))
                continue
            back = ora.get("tp:" + rel, {})
            if back.get("kind") != "module" or back.get("file") != f:
                parts_ = rel.split("/")
                mod_ = parts_[:-1] + ([] if parts_[-1] == "__init__.py" else [parts_[-1][:-3]])
                relative_names = {tuple(mod_[c:]) for c in range(len(mod_))}
                shape = "shortest-name-is-shadowed" if tuple(names) in relative_names else "not-a-path-relative-name"
                devs.append(("transform_path_to_dotted-does-not-import-back:" + shape, "%s -> %s -> %s (sys.path %s)" % (
                    rel, ".".join(names), back, [p.replace(str(tree), "<T>") for p in eff])))
        for i, s, fpath, name in plans:
            want = ora.get("q%d" % i)
            if want is None or want["kind"] in ("ImportError", "other", "value") and s["bound"] != "NAME":
                ctx.cls("not-judged:" + (want or {}).get("kind", "?"))
                continue
            if s["importer"]:
                own_parts = s["importer"].split("/")[1:]
                own_parts = [p_[:-3] if p_.endswith(".py") else p_ for p_ in own_parts]
                first = s["stmt"].split()[1].lstrip(".").split(".")[0]
                if not s["stmt"].split()[1].startswith(".") and first in own_parts:
                    # a package importing (a prefix of) itself: the statement would rebind the package's own attribute,
                    # which an exec() in a scratch namespace does not reproduce -> oracle not applicable
                    ctx.cls("not-judged:self-import")
                    continue
                me = ora.get("self%d" % i, {})
                if me.get("kind") != "module" or me.get("file") != os.path.realpath(str(fpath)):
                    ctx.cls("importer-shadowed")
                    continue
            code = s["stmt"] + "\n" + s["bound"] + "\n"
            col = len(s["bound"])
            script = boot.fresh_script(code, path=str(fpath), project=project)
            try:
                inf = script.infer(2, col)
                gto = script.goto(2, col, follow_imports=True)
            except Exception as e:
                devs.append((api.bucket(e, "infer/goto"), api.tb_tail(e)))
                continue
            finally:
                # the buffer pretended to be a layout file: do not leave its tree in the parser cache for later imports
                boot.forget_path(str(fpath))
            top_name = s["stmt"].split()[1].lstrip(".").split(".")[0]
            cands = sum(1 for r in layout["roots"] for ext in (".py", "") if (tree / r / (top_name + ext)).exists()) if top_name else 0
            where = "%r from %s (sys.path %s)" % (s["stmt"], s["importer"] or "script", [p.replace(str(tree), "<T>") for p in eff])
            ctx.cls("form:" + s["form"], "expect:" + want["kind"])
            if cands >= 2 or want["kind"] == "namespace" or s["stmt"].startswith("from ..") or s["stmt"].startswith("from ..."):
                ctx.nontriv([layout, s])
            inf_paths = sorted({os.path.realpath(str(n.module_path)) for n in inf if n.module_path})
            gto_paths = sorted({os.path.realpath(str(n.module_path)) for n in gto if n.module_path})
            if s["bound"] == "NAME":
                if want["kind"] == "value":
                    target_file = os.path.realpath(str(tree / want["value"]))
                    if target_file == os.path.realpath(str(fpath)):
                        ctx.cls("not-judged:imports-the-buffer-itself")   # the buffer's text is not the file's text
                        continue
                    if gto_paths != [target_file]:
                        devs.append(("attribute-import-goto-wrong-file:" + s["form"], where + " goto=%s expected %s" % (gto_paths, target_file)))
                elif want["kind"] == "ModuleNotFoundError":
                    if inf:
                        devs.append(("failed-import-infers-something:" + s["form"], where + " infer=%s" % inf))
                continue
            if want["kind"] == "module" and want["file"] == os.path.realpath(str(fpath)):
                ctx.cls("not-judged:imports-the-buffer-itself")
            elif want["kind"] == "module":
                if inf_paths != [want["file"]] or any(n.type != "module" for n in inf):
                    devs.append(("infer-resolves-to-other-file:" + s["form"], where + " infer=%s expected %s" % (inf_paths or inf, want["file"])))
                elif gto_paths != [want["file"]]:
                    devs.append(("goto-follow-imports-resolves-to-other-file:" + s["form"], where + " goto=%s expected %s" % (gto_paths or gto, want["file"])))
            elif want["kind"] == "namespace":
                if not inf or inf_paths or any(n.type not in ("namespace", "module") for n in inf):
                    devs.append(("namespace-package-not-reported-as-such:" + s["form"], where + " infer=%s paths=%s" % (inf, inf_paths)))
            elif want["kind"] == "ModuleNotFoundError":
                if inf:
                    devs.append(("failed-import-infers-something:" + s["form"], where + " infer=%s" % [(n.type, str(n.module_path)) for n in inf]))
    ctx.sample({"roots": layout["roots"], "files": sorted(layout["files"])[:12], "statements": [s["stmt"] for s in case["stmts"]][:6]}, limit=3)
    for sig, detail in devs:
        ctx.judge(sig, detail, case)


def shard(ctx):
    core.drive(ctx, cases(), lambda c: run_case(ctx, c), EXAMPLES[ctx.tier])


def replay(ctx, case):
    run_case(ctx, case)
