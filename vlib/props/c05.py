"""C05 — rename rewrites exactly the references and preserves behaviour."""
import io
import os
import re
import keyword
import tokenize
import builtins
from pathlib import Path
from hypothesis import strategies as st
from .. import boot, core, api, proggen, tracer

ID = "C05"
LEVEL = "exploration"
BUDGET = {"quick": 160, "thorough": 1700}
EXAMPLES = {"quick": 20, "thorough": 300}
PER_PROGRAM = 6
RULE = ("cases = executable programs from vlib.proggen (single- and multi-module, every probe value printed at the end) "
        "x 6 identifier occurrences per program drawn from all identifier tokens with lexical meaning (variables, "
        "parameters, functions, classes, attributes, methods, imported modules, aliases; no dunder names, builtins or "
        "keywords). For each occurrence: (1) the positions rewritten by rename(new_name=fresh) - located by a "
        "token-wise diff of old and new sources with CPython's tokenizer - must equal get_references(include_builtins="
        "False); (2) get_references from up to 4 of the reported occurrences must return the same set; (3) the renamed "
        "project (files rewritten, announced renames performed) must print the same stdout and end with the same "
        "exception type as the original, both run in fresh interpreters; (4) renaming back must restore every file byte "
        "for byte. Non-trivial: >=2 references and (references in >=2 files, or the name is an attribute/method/"
        "parameter, or a file is renamed); distinct = hash(program, occurrence).")
ASSUMPTIONS = ["CPython execution in a fresh interpreter defines 'observable behaviour' (stdout + exception type)",
               "programs print values, never reprs of functions/classes (which would contain the renamed name)",
               "names of <= 2 characters are not generated (jedi does not search other modules for them, by design)"]

BUILTINS = set(dir(builtins)) | {"self", "cls", "functools", "wraps", "pytest"}
PARAMS = {"first", "second", "item", "other", "rest", "more", "named", "func", "args", "kwargs", "depth", "todo", "key",
          "exc", "wrapper", "outer", "inner", "left", "right", "loopvar"}


def kind_of(name, prog_modules):
    if name in prog_modules:
        return "module"
    if name == "hlp" or name.startswith("Imp"):
        return "alias"
    if name.startswith("K") and name[1:4] in ("Cls", "Mix", "Cir", "Box", "Sha", "Squ"):
        return "class"
    for pre, k in (("pv_", "variable"), ("ua_", "variable"), ("ub_", "variable"), ("uc_", "variable"), ("ud_", "variable"),
                   ("fv_", "variable"), ("un_", "variable"), ("it_", "variable"), ("cm_", "variable"), ("cnt_", "variable"),
                   ("loc_", "variable"), ("par_", "parameter"), ("fun_", "function"), ("dfun_", "function"), ("deco_", "function"),
                   ("lam_", "function"), ("gen_", "function"), ("inner_", "function"), ("hfun_", "function"),
                   ("iattr_", "attribute"), ("cattr_", "attribute"), ("meth_", "method"), ("area_", "duck-method"),
                   ("duck_", "variable"), ("acc_", "variable")):
        if name.startswith(pre):
            return k
    if name in PARAMS:
        return "parameter"
    return "other"


def comprehension_positions(text):
    """(line, col) of Name nodes inside comprehensions that name one of the comprehension's own targets."""
    import ast
    out = set()
    try:
        tree = ast.parse(text)
    except SyntaxError:
        return out
    for node in ast.walk(tree):
        if isinstance(node, (ast.ListComp, ast.SetComp, ast.DictComp, ast.GeneratorExp)):
            targets = {n.id for g in node.generators for n in ast.walk(g.target) if isinstance(n, ast.Name)}
            for n in ast.walk(node):
                if isinstance(n, ast.Name) and n.id in targets:
                    out.add((n.lineno, n.col_offset))
    return out


def name_tokens(text):
    out = []
    try:
        for t in tokenize.generate_tokens(io.StringIO(text).readline):
            if t.type == tokenize.NAME and not keyword.iskeyword(t.string):
                out.append((t.start[0], t.start[1], t.string))
    except (tokenize.TokenError, IndentationError, SyntaxError):
        pass
    return out


def all_tokens(text):
    return [(t.type, t.string, t.start) for t in tokenize.generate_tokens(io.StringIO(text).readline)
            if t.type not in (tokenize.NL, tokenize.NEWLINE, tokenize.INDENT, tokenize.DEDENT, tokenize.ENDMARKER, tokenize.COMMENT)]


@st.composite
def cases(draw):
    prog = draw(proggen.programs(max_blocks=5))
    picks = draw(st.lists(st.tuples(st.integers(0, 10 ** 6), st.integers(0, 10 ** 6)), min_size=PER_PROGRAM, max_size=PER_PROGRAM))
    return {"files": prog.files(), "main": "main_mod.py", "picks": picks, "features": sorted(prog.features),
            "focus": list(getattr(prog, "focus", []))}


def run_program(root, main):
    rep = tracer.run(root, main, [])
    if rep is None:
        return ("timeout", "")
    return (rep["stdout"], (rep["exc"] or "").split(":")[0])


def run_case(ctx, case):
    jedi = boot.jedi_boot()
    top = Path(os.path.realpath(boot.fresh_dir("c05")))
    root = top / "proj"
    root.mkdir()
    tracer.write_project(root, case["files"])
    base_behaviour = run_program(root, case["main"])
    if base_behaviour[0] == "timeout" or base_behaviour[1]:
        ctx.discard("original program raised or timed out (generator bug)")
        return
    modules = {f[:-3] for f in case["files"]}
    occs = []
    for rel, text in sorted(case["files"].items()):
        for l, c, s in name_tokens(text):
            # 'key' only occurs as a keyword that lands in **more (a dict key, i.e. reached through a string): excluded
            if s.startswith("__") or s in BUILTINS or len(s) <= 2 or s in ("print", "CONSTANT", "key"):
                continue
            occs.append((rel, l, c, s))
    # only identifiers that are DEFINED somewhere in the generated sources (an attribute of a builtin value such as
    # `.real` has its definition in typeshed, outside the analysed program)
    from ..oracles import pyfront
    defined = set()
    for rel_, text_ in case["files"].items():
        try:
            toks_ = {(l, c): s_ for l, c, s_ in pyfront.name_tokens(text_)}
            defined |= {toks_[p_] for p_ in pyfront.binding_positions(text_) if p_ in toks_}
        except Exception:
            pass
    occs = [o for o in occs if o[3] in defined]
    # names that also occur as string literals (keys of **{...} calls, getattr) are "reached via strings": excluded
    alltext = "\n".join(case["files"].values())
    occs = [o for o in occs if not re.search(r"['\"]%s['\"]" % re.escape(o[3]), alltext)]
    if not occs:
        ctx.discard("no identifier occurrences")
        return
    project = jedi.Project(str(root))
    devs = []
    with core.time_limit(290):
        for n, (a, b) in enumerate(case["picks"]):
            # draw by name first (so that rare names are not drowned by frequent ones), then an occurrence of it
            names = sorted({o[3] for o in occs})
            focus = [f_ for f_ in case.get("focus", []) if f_ in names]
            nm = focus[a % len(focus)] if focus and n < 3 else names[a % len(names)]
            cand = [o for o in occs if o[3] == nm]
            rel, line, col, name = cand[b % len(cand)]
            kind = kind_of(name, modules)
            if (line, col) in comprehension_positions(case["files"][rel]):
                kind = "comprehension-variable"
            if kind == "parameter":
                defs_ = {(r_, f_) for r_, t_ in case["files"].items() for f_ in re.findall(r"def (\w+)\([^)]*\b%s\b" % re.escape(name), t_)}
                cross = any(re.search(r"\b%s\([^)\n]*\b%s=" % (re.escape(f_), re.escape(name)), t2)
                            for (r_, f_) in defs_ for r2, t2 in case["files"].items() if r2 != r_)
                if cross:
                    kind = "parameter-named-by-keyword-in-another-module"
            fresh = "zz_renamed_%d" % n
            text = case["files"][rel]
            path = str(root / rel)
            ctx.count()

            def mk(rel_):
                return boot.fresh_script(case["files"][rel_], path=str(root / rel_), project=project)
            try:
                s = mk(rel)
                refs = s.get_references(line, col + 1, include_builtins=False)
                ref_set = {(str(Path(r.module_path).relative_to(root)) if r.module_path else None, r.line, r.column) for r in refs}
                ren = s.rename(line, col + 1, new_name=fresh)
                changed = {str(Path(p).relative_to(root)): cf.get_new_code() for p, cf in ren.get_changed_files().items()}
                renames = [(str(Path(a_).relative_to(root)), str(Path(b_).relative_to(root))) for a_, b_ in ren.get_renames()]
            except jedi.RefactoringError:
                ctx.cls("refused:" + kind)
                continue
            except Exception as e:
                ctx.cls("not-judged:internal-exception(C01/C07)")
                continue
            where = "%s %r at %s:%d:%d" % (kind, name, rel, line, col)
            # (1) rewritten positions == references
            rewritten = set()
            shape_ok = True
            for frel, new_text in changed.items():
                old_toks, new_toks = all_tokens(case["files"][frel]), all_tokens(new_text)
                if len(old_toks) != len(new_toks):
                    devs.append(("rename-changed-token-structure:" + kind, where + " in " + frel))
                    shape_ok = False
                    continue
                for o, w in zip(old_toks, new_toks):
                    if o[1] != w[1]:
                        if o[1] == name and w[1] == fresh:
                            rewritten.add((frel, o[2][0], o[2][1]))
                        else:
                            devs.append(("rename-rewrote-a-different-token:" + kind, where + " %r -> %r in %s" % (o[1], w[1], frel)))
                            shape_ok = False
            # a reference that designates a module file itself (line 1, column 0 of that file) is honoured by the
            # announced file rename, not by a text edit
            renamed_files = {a_ for a_, b_ in renames} | {a_ + "/__init__.py" for a_, b_ in renames}
            text_refs = {r for r in ref_set if r[0] is not None and not (r[0] in renamed_files and r[1:] == (1, 0))}
            if shape_ok and rewritten != text_refs:
                miss = sorted(text_refs - rewritten)[:4]
                extra = sorted(rewritten - text_refs)[:4]
                devs.append(("rename-differs-from-references:" + kind, where + " referenced-but-not-rewritten=%s rewritten-but-not-referenced=%s" % (miss, extra)))
            # (2) partition
            files_in_refs = {r[0] for r in ref_set if r[0]}
            for (frel, l2, c2) in sorted(text_refs)[:4]:
                try:
                    other = mk(frel).get_references(l2, c2 + 1, include_builtins=False)
                    oset = {(str(Path(r.module_path).relative_to(root)) if r.module_path else None, r.line, r.column) for r in other}
                except Exception:
                    continue
                if oset != ref_set:
                    devs.append(("references-not-a-partition:" + kind, where + " from %s:%d:%d differs: only-there=%s only-here=%s" % (
                        frel, l2, c2, sorted(oset - ref_set)[:3], sorted(ref_set - oset)[:3])))
                    break
            # (3) behaviour
            new_files = dict(case["files"])
            new_files.update(changed)
            for a_, b_ in renames:
                moved = {k: v for k, v in new_files.items() if k == a_ or k.startswith(a_ + "/")}
                for k, v in moved.items():
                    del new_files[k]
                    new_files[b_ + k[len(a_):]] = v
            nroot = top / ("renamed-%d" % n) / "proj"
            nroot.mkdir(parents=True)
            tracer.write_project(nroot, new_files)
            new_main = case["main"]
            for a_, b_ in renames:
                if a_ == new_main:
                    new_main = b_
            nb = run_program(nroot, new_main)
            if nb[0] == "timeout":
                ctx.inconclusive += 1        # a slow machine is not a behaviour change
            elif nb != base_behaviour:
                devs.append(("behaviour-changed:" + kind, where + " original=%r renamed=%r" % (base_behaviour[1] or base_behaviour[0][-80:], nb[1] or nb[0][-80:])))
            # (4) rename back
            try:
                back_rel = rel
                for a_, b_ in renames:
                    if a_ == rel:
                        back_rel = b_
                delta = sum(len(fresh) - len(name) for (f_, l_, c_) in rewritten if f_ == rel and l_ == line and c_ < col)
                s2 = jedi.Script(new_files[back_rel], path=str(nroot / back_rel), project=jedi.Project(str(nroot)))
                ren2 = s2.rename(line, col + delta + 1, new_name=name)
                restored = dict(new_files)
                restored.update({str(Path(p).relative_to(nroot)): cf.get_new_code() for p, cf in ren2.get_changed_files().items()})
                for a_, b_ in ren2.get_renames():
                    a_, b_ = str(Path(a_).relative_to(nroot)), str(Path(b_).relative_to(nroot))
                    for k in [k for k in restored if k == a_ or k.startswith(a_ + "/")]:
                        restored[b_ + k[len(a_):]] = restored.pop(k)
                if restored != case["files"]:
                    bad = sorted(k for k in set(restored) | set(case["files"]) if restored.get(k) != case["files"].get(k))
                    devs.append(("rename-back-does-not-restore:" + kind, where + " differing files %s" % bad[:4]))
            except jedi.RefactoringError:
                devs.append(("rename-back-refused:" + kind, where))
            except Exception:
                ctx.cls("not-judged:internal-exception(C01/C07)")
            ctx.cls("kind:" + kind)
            if len(ref_set) >= 2 and (len(files_in_refs) >= 2 or kind in ("attribute", "method", "parameter") or renames):
                ctx.nontriv([case["files"], rel, line, col])
    ctx.sample({"features": case["features"], "files": sorted(case["files"]), "picked": [(o) for o in case["picks"][:2]]}, limit=2)
    for sig, detail in devs:
        ctx.judge(sig, detail, case)


def shard(ctx):
    core.drive(ctx, cases(), lambda c: run_case(ctx, c), EXAMPLES[ctx.tier])


def replay(ctx, case):
    run_case(ctx, case)
