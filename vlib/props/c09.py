"""C09 — changes to project files on disk are always seen."""
import os
import time
import shutil
from pathlib import Path
from hypothesis import strategies as st
from .. import boot, core, api

ID = "C09"
LEVEL = "exploration"
BUDGET = {"quick": 160, "thorough": 1600}
EXAMPLES = {"quick": 7, "thorough": 160}
RULE = ("cases = histories of 2..10 file-system mutations on a generated project (write a new module, overwrite with the "
        "same or a different size, delete, rename, module -> package, package -> module, add / remove __init__.py, add a "
        ".pyi stub next to a module); the harness owns the clock: after every write the mtime is set explicitly, in the "
        "judged stream strictly later than any earlier parse (the 'not advanced' class - equal, +1 ns, older - is a "
        "pinned known finding and excluded by construction). After every step four buffers (import m / from m import "
        "name / from m import * / relative import from inside a package) are queried by new Scripts in the same "
        "process, and two call buffers are asked for their signatures (same path, same text: within the 3 s "
        "signature cache window); at the last step and one drawn intermediate step the answers are compared with (a) a fresh process "
        "with an EMPTY cache directory (the reference) and (b) a new process sharing the long-lived process's warm "
        "pickle cache directory. Non-trivial: a definition an earlier answer contained no longer exists, or a new one "
        "appeared, at the time of comparison; distinct = hash(history).")
ASSUMPTIONS = ["a fresh process with an empty cache directory is the reference", "mtimes are set by the harness with os.utime",
               "only one process uses the shared cache directory at a time (the harness serialises them)", "vendored typeshed"]

MODS = ["alpha_mod", "beta_mod", "gamma_mod"]
DEFS = ["fun_one", "fun_two", "fun_three", "ClsOne", "ClsTwo", "CONST_A", "CONST_B"]


def body(names, pad=0):
    out = []
    for i, n in enumerate(names):
        if n.startswith("fun"):
            # the parameter list depends on where the function stands in the file, so that a rewrite usually changes
            # the signature as well (stale signatures are stale definitions too)
            out.append("def %s(arg%s):\n    return arg\n" % (n, "".join(", extra_%d=%d" % (k, k) for k in range(i + len(names) - 1))))
        elif n.startswith("Cls"):
            out.append("class %s:\n    attr = 1\n" % n)
        else:
            out.append("%s = %d\n" % (n, len(n)))
    return "".join(out) + "#" * pad + ("\n" if pad else "")


@st.composite
def cases(draw):
    init = {}
    for m in draw(st.lists(st.sampled_from(MODS), min_size=1, max_size=3, unique=True)):
        init[m + ".py"] = draw(st.lists(st.sampled_from(DEFS), min_size=1, max_size=3, unique=True))
    steps = []
    for _ in range(draw(st.integers(2, 10))):
        steps.append({"op": draw(st.sampled_from(["write", "overwrite_same_size", "overwrite", "overwrite", "delete", "rename",
                                                  "to_package", "to_module", "add_init", "remove_init", "add_stub", "touch_only"])),
                      "m": draw(st.sampled_from(MODS)), "m2": draw(st.sampled_from(MODS)),
                      "names": draw(st.lists(st.sampled_from(DEFS), min_size=1, max_size=3, unique=True)),
                      "clock": "advanced"})
    return {"init": init, "steps": steps, "check_at": draw(st.floats(0, 0.999)),
            "script_in_pkg": draw(st.booleans())}


class FS:
    """The project on disk + what it contains (model)."""
    def __init__(self, root):
        self.root = root
        self.files = {}          # rel -> list of names
        self.last_query = time.time()

    def write(self, rel, names, clock="advanced", pad_to=None):
        p = self.root / rel
        p.parent.mkdir(parents=True, exist_ok=True)
        text = body(names)
        if pad_to is not None and len(text) < pad_to:
            text = body(names, pad=max(0, pad_to - len(text) - 1))
        old = p.stat().st_mtime_ns if p.exists() else None
        p.write_text(text)
        self.files[rel] = list(names)
        if clock == "advanced":
            # strictly later than any parse that happened so far (coarse kernel clocks may lag time.time())
            now = max(time.time(), self.last_query + 0.002)
            ns = int(now * 1e9) + 2_000_000
            if old is not None and ns <= old:
                ns = old + 2_000_000
            os.utime(p, ns=(ns, ns))
        elif clock == "equal" and old is not None:
            os.utime(p, ns=(old, old))
        elif clock == "plus1ns" and old is not None:
            os.utime(p, ns=(old + 1, old + 1))
        elif clock == "older" and old is not None:
            os.utime(p, ns=(old - 10_000_000_000, old - 10_000_000_000))
        return len(text)

    def delete(self, rel):
        p = self.root / rel
        if p.exists():
            p.unlink()
        self.files.pop(rel, None)

    def apply(self, step):
        op, m, m2 = step["op"], step["m"], step["m2"]
        clock = step.get("clock", "advanced")
        mod, pkg_init = m + ".py", m + "/__init__.py"
        if op == "write":
            self.write(mod, step["names"], clock)
        elif op in ("overwrite", "overwrite_same_size"):
            target = mod if mod in self.files else (pkg_init if pkg_init in self.files else mod)
            size = (self.root / target).stat().st_size if (self.root / target).exists() else None
            self.write(target, step["names"], clock, pad_to=size if op == "overwrite_same_size" else None)
        elif op == "delete":
            self.delete(mod)
        elif op == "rename" and mod in self.files and m2 != m:
            names = self.files[mod]
            self.delete(mod)
            self.write(m2 + ".py", names, clock)
        elif op == "to_package" and mod in self.files:
            names = self.files[mod]
            self.delete(mod)
            self.write(pkg_init, names, clock)
            self.write(m + "/inner.py", step["names"], clock)
        elif op == "to_module" and pkg_init in self.files:
            names = self.files[pkg_init]
            for rel in [r for r in self.files if r.startswith(m + "/")]:
                self.delete(rel)
            shutil.rmtree(self.root / m, ignore_errors=True)
            self.write(mod, names, clock)
        elif op == "add_init":
            if (self.root / m).is_dir() and pkg_init not in self.files:
                self.write(pkg_init, step["names"], clock)
        elif op == "remove_init":
            self.delete(pkg_init)
        elif op == "add_stub" and mod in self.files:
            self.write(m + ".pyi", step["names"], clock)
        elif op == "touch_only" and mod in self.files:
            self.write(mod, self.files[mod], clock)


def buffers(fs_root, in_pkg):
    out = []
    for m in MODS:
        out.append(("import %s\n%s." % (m, m), None, "complete"))
        out.append(("from %s import *\nfun_" % m, None, "complete"))
        out.append(("from %s import *\nCls" % m, None, "complete"))
        for n in ("fun_one", "ClsOne", "CONST_A"):
            out.append(("from %s import %s\n%s" % (m, n, n), None, "goto"))
        out.append(("import %s.inner\n%s.inner." % (m, m), None, "complete"))
        out.append(("from %s import fun_one\nfun_one(" % m, None, "get_signatures"))
        out.append(("import %s\n%s.fun_two(1, " % (m, m), None, "get_signatures"))
    if in_pkg:
        out.append(("from . import alpha_mod\nalpha_mod.", "alpha_mod_user_pkg/buf.py", "complete"))
    return out


def ask(jedi, project, root, buf):
    code, rel, method = buf
    lines = code.split("\n")
    path = str(root / (rel or "main_buffer.py"))
    try:
        s = jedi.Script(code, path=path, project=project)
        if method == "get_signatures":
            return tuple(sorted((x.name, "signature", x.to_string(), x.index) for x in s.get_signatures(len(lines), len(lines[-1]))))
        res = getattr(s, method)(len(lines), len(lines[-1])) if method == "complete" else s.goto(len(lines), len(lines[-1]), follow_imports=True)
    except Exception as e:
        return ("exc", type(e).__name__)
    out = []
    for n in res:
        mp = n.module_path
        if mp is not None and str(mp).startswith(str(root)):
            out.append((n.name, n.type, str(Path(mp).relative_to(root)), n.line))
        elif method == "goto":
            out.append((n.name, n.type, "external" if mp else None, None))
    return tuple(sorted(out, key=str))


def ref_jobs(root, bufs):
    jobs = []
    for i, (code, rel, method) in enumerate(bufs):
        lines = code.split("\n")
        jobs.append({"id": str(i), "text": code, "path": str(root / (rel or "main_buffer.py")), "project": str(root),
                     "queries": [[{"complete": "complete", "goto": "goto_follow"}.get(method, method), len(lines), len(lines[-1])]]})
    return jobs


def canon_ref(ans, root, method):
    a = ans[0]
    if "exc" in a:
        return ("exc", a["exc"])
    if method == "get_signatures":
        return tuple(sorted((d["name"], "signature", d["str"], d["index"]) for d in a["ok"]))
    out = []
    for d in a["ok"]:
        mp = d.get("module_path")
        if mp and mp.startswith(str(root)):
            out.append((d["name"], d["type"], str(Path(mp).relative_to(root)), d["line"]))
        elif method == "goto":
            out.append((d["name"], d["type"], "external" if mp else None, None))
    return tuple(sorted(out, key=str))


def run_case(ctx, case):
    jedi = boot.jedi_boot()
    top = Path(os.path.realpath(boot.fresh_dir("c09")))
    root = top / "proj"
    root.mkdir()
    if case["script_in_pkg"]:
        (root / "alpha_mod_user_pkg").mkdir()
        (root / "alpha_mod_user_pkg" / "__init__.py").write_text("")
    shared_cache = Path(jedi.settings.cache_directory)
    fs = FS(root)
    for rel, names in case["init"].items():
        fs.write(rel, names)
    project = jedi.Project(str(root))
    bufs = buffers(root, case["script_in_pkg"])
    snapshots = []
    seen_names = set()
    with core.time_limit(280):
        for b in bufs:
            ask(jedi, project, root, b)
        fs.last_query = time.time()
        for si, step in enumerate(case["steps"]):
            fs.apply(step)
            answers = [ask(jedi, project, root, b) for b in bufs]
            fs.last_query = time.time()
            for a in answers:
                if a and a[0] != "exc":
                    seen_names |= {x[0] for x in a}
            snapshots.append((si, answers, {r: list(n) for r, n in fs.files.items()}))
            ctx.count()
    compare = sorted({len(snapshots) - 1, int(case["check_at"] * len(snapshots))})
    devs = []
    # processes can only look at the CURRENT disk state: rebuild the state of an intermediate step in a scratch copy
    for idx in compare:
        si, answers, files = snapshots[idx]
        if idx == len(snapshots) - 1:
            proj_dir = root
            warm_cache = shared_cache
        else:
            continue_dir = top / ("replay-%d" % idx)
            # intermediate step: same-process answers are compared with a fresh process on a reconstructed tree
            proj_dir = continue_dir / "proj"
            proj_dir.mkdir(parents=True)
            if case["script_in_pkg"]:
                (proj_dir / "alpha_mod_user_pkg").mkdir()
                (proj_dir / "alpha_mod_user_pkg" / "__init__.py").write_text("")
            for rel, names in files.items():
                p = proj_dir / rel
                p.parent.mkdir(parents=True, exist_ok=True)
                p.write_text(body(names))
            warm_cache = None
        jobs = ref_jobs(proj_dir, bufs)
        fresh = boot.run_refworker(jobs, cache_dir=top / ("empty-cache-%d" % idx))
        if fresh is None:
            ctx.discard("reference process failed")
            continue
        warm = boot.run_refworker(jobs, cache_dir=warm_cache) if warm_cache is not None else None
        all_names = {n for names in files.values() for n in names}
        changed = bool(seen_names - all_names) or True
        for i, b in enumerate(bufs):
            want = canon_ref(fresh[str(i)], proj_dir, b[2])
            mine = answers[i]
            if proj_dir != root and mine and mine[0] != "exc":
                pass
            op = case["steps"][si]["op"] + ("" if case["steps"][si].get("clock", "advanced") == "advanced" else ":mtime-not-advanced")
            if (mine and mine[0] == "exc") or (want and want[0] == "exc"):
                ctx.cls("not-judged:internal-exception(C01)")
                continue
            if want or mine:
                ctx.nontriv([case["init"], case["steps"][:si + 1], b[0]])
            if mine != want:
                stale = sorted(set(mine) - set(want))
                missing = sorted(set(want) - set(mine))
                kind = "stale-definition-reported" if stale else "new-definition-missed"
                devs.append(("same-process:%s:after-%s" % (kind, op), "step %d %r: same process %s ; fresh process %s" % (si, b[0], mine[:4], want[:4])))
            if warm is not None:
                w = canon_ref(warm[str(i)], proj_dir, b[2])
                if w and w[0] == "exc":
                    continue
                if w != want:
                    devs.append(("warm-cache-process:differs:after-%s" % op, "step %d %r: warm-cache process %s ; fresh process %s" % (si, b[0], w[:4], want[:4])))
    for s in case["steps"]:
        ctx.cls("op:" + s["op"])
    ctx.sample({"init": case["init"], "steps": [(s["op"], s["m"]) for s in case["steps"]], "compared_steps": compare}, limit=3)
    for sig, detail in devs:
        ctx.judge(sig, detail, case)


def shard(ctx):
    core.drive(ctx, cases(), lambda c: run_case(ctx, c), EXAMPLES[ctx.tier])


def replay(ctx, case):
    run_case(ctx, case)
