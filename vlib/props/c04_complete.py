"""C04, completeness clause: after 'recv.' every source-defined attribute of the live receiver is offered."""
from hypothesis import strategies as st
from .. import boot, core, api, proggen, tracer

EXAMPLES = {"quick": 36, "thorough": 400}


@st.composite
def cases(draw):
    prog = draw(proggen.programs())
    return {"kind": "complete", "files": prog.files(), "main": "main_mod.py", "probes": prog.main.probes,
            "features": sorted(prog.features), "pick": draw(st.integers(0, 10 ** 6))}


def run_case(ctx, case):
    jedi = boot.jedi_boot()
    root = boot.fresh_dir("c04c") / "proj"
    root.mkdir()
    tracer.write_project(root, case["files"])
    receivers = [p for p in case["probes"] if p["d"][0] in ("inst", "cls")]
    tainted = [p for p in receivers if set(p["tags"]) & proggen.TAINT]
    if tainted:
        # receivers whose *inference* is a pinned C02 finding (e.g. literal-guarded recursion) offer nothing: same root cause
        ctx.known_hits["receiver excluded: C02 finding " + "/".join(sorted(set(tainted[0]["tags"]) & proggen.TAINT))] += len(tainted)
    receivers = [p for p in receivers if not (set(p["tags"]) & proggen.TAINT)]
    names = [p["name"] for p in receivers]
    mods = []
    rep = tracer.run(root, case["main"], names)
    if rep is None or rep["exc"]:
        ctx.discard("program timed out or raised")
        return
    main_text = case["files"][case["main"]]
    main_path = str(root / case["main"])
    project = jedi.Project(str(root))
    devs = []
    base = main_text if main_text.endswith("\n") else main_text + "\n"
    with core.time_limit(240):
        for p in receivers:
            desc = rep["probes"].get(p["name"])
            if not desc or not desc.get("attrs"):
                continue
            attrs = set(desc["attrs"])
            ctx.count()
            tag = (p["tags"] or ["plain"])[-1]
            # plain 'recv.' and, for one attribute, 'recv.<first two letters>'
            buf = base + p["name"] + "."
            line = buf.count("\n") + 1
            boot.forget_path(main_path)
            s = jedi.Script(buf, path=main_path, project=project)
            offered = {c.name for c in s.complete(line, len(p["name"]) + 1)}
            missing = sorted(attrs - offered)
            if missing:
                devs.append(("attribute-not-offered:" + desc["kind"] + ":" + tag,
                             "after %r (%s %s) missing %s" % (p["name"] + ".", desc["kind"], desc["target"].get("qualname"), missing[:6])))
            one = sorted(attrs)[case["pick"] % len(attrs)]
            frag = one[:2]
            buf2 = base + p["name"] + "." + frag
            boot.forget_path(main_path)
            s2 = jedi.Script(buf2, path=main_path, project=project)
            offered2 = {c.name for c in s2.complete(line, len(p["name"]) + 1 + len(frag))}
            want2 = {a for a in attrs if a.lower().startswith(frag.lower())}
            if want2 - offered2:
                devs.append(("attribute-not-offered-with-fragment:" + desc["kind"],
                             "after %r missing %s" % (p["name"] + "." + frag, sorted(want2 - offered2)[:6])))
            ctx.cls("receiver:" + desc["kind"], "recv-tag:" + tag)
            ctx.nontriv([main_text, p["name"]])
            ctx.sample({"receiver": p["name"], "kind": desc["kind"], "class": desc["target"].get("qualname"),
                        "source_attrs": sorted(attrs)[:12], "offered": len(offered)}, limit=6)
    for sig, detail in devs:
        ctx.judge(sig, detail, case)


def shard(ctx):
    core.drive(ctx, cases(), lambda c: run_case(ctx, c), EXAMPLES[ctx.tier], salt=777)
