"""C17 — every reported source position is faithful to the text."""
import re
from collections import Counter
from pathlib import Path
from hypothesis import strategies as st
from .. import boot, core, corpus, api
from ..oracles import pyfront

ID = "C17"
LEVEL = "exploration"
BUDGET = {"quick": 130, "thorough": 1500}
EXAMPLES = {"quick": 45, "thorough": 900}
RULE = ("cases = statement-aligned chunks (<=90 lines) of the frozen corpus that compile() and have no parso syntax "
        "error, put through validity-preserving layout mutators (CRLF/CR/mixed EOL, form feed, continuation line, "
        "non-ASCII identifiers, tabs, no final newline); checked: (a) get_names(all_scopes, definitions, references) "
        "== multiset of tokenize NAME tokens that are not hard keywords, (b) is_definition() == binding tokens "
        "derived from ast, (c) for result objects of infer/goto/help/get_references/complete/get_signatures/"
        "get_context at 8 sampled identifier positions that point into the buffer or a corpus file: text at "
        "(line, column) is the name, definition range encloses it, get_line_code() is that physical line. "
        "Non-trivial: the text has a non-LF line end, a continuation line, a non-ASCII identifier or an unpacking/"
        "multi-target assignment, or a result points into another file; distinct = hash(text).")
ASSUMPTIONS = ["CPython 3.12 tokenize/ast as token and binding oracle", "vendored typeshed",
               "match statements / PEP 695 syntax excluded (parso 0.8.7 has no grammar for them)"]


@st.composite
def cases(draw):
    name, text, applied = draw(corpus.valid_sources())
    seeds = draw(st.lists(st.integers(0, 10 ** 6), min_size=8, max_size=8))
    return {"origin": name, "mut": applied, "text": text, "pick": seeds}


def _file_text(p, cache={}):
    if p not in cache:
        try:
            cache[p] = Path(p).read_bytes().decode("utf-8")
        except Exception:
            cache[p] = None
    return cache[p]


def check_obj(n, method, script_path, text, devs, stats, ranges=None):
    """Clause (c) for one result object."""
    try:
        typ, line, col, name, mp = n.type, n.line, n.column, n.name, n.module_path
    except Exception as e:
        devs.append((api.bucket(e, method + "->attr"), api.tb_tail(e)))
        return
    if line is None or typ in ("module", "namespace") or mp is None:
        return
    mp = str(mp)
    if mp == script_path:
        src = text
    elif mp.startswith(str(boot.CORPUS)):
        src = _file_text(mp)
        stats["other_file"] += 1
        if src is None:
            return
    else:
        stats["external"] += 1
        return
    stats["objects"] += 1
    lines = corpus.split_lines(src)
    where = "%s -> %s %r at %s:%s:%s" % (method, typ, name, Path(mp).name, line, col)
    if not (1 <= line <= len(lines)) or not (0 <= col <= len(lines[line - 1])):
        devs.append(("position-outside-text:" + method, where))
        return
    here = lines[line - 1][col:]
    bare = name[:-1] if name.endswith("=") and typ == "param" else name
    anonymous = not bare.isidentifier()
    if anonymous:
        stats["anonymous"] += 1      # '<lambda>' has no name token in the text: only get_line_code is judged
    elif not (here.startswith(bare) or here.startswith("__" + bare)):
        devs.append(("text-at-position-is-not-name:" + typ, where + " text=%r" % here[:30]))
    try:
        start, end = n.get_definition_start_position(), n.get_definition_end_position()
        code = n.get_line_code()
    except Exception as e:
        devs.append((api.bucket(e, method + "->range"), api.tb_tail(e)))
        return
    if anonymous and start is None and end is None:
        pass
    elif start is None or end is None or not (tuple(start) <= (line, col) < tuple(end)):
        devs.append(("definition-range-does-not-enclose:" + typ, where + " range=%s..%s" % (start, end)))
    elif ranges is not None and mp == script_path and (line, col) in ranges and typ in ("function", "class", "statement"):
        starts, want_end = ranges[(line, col)]
        stats["exact_ranges"] += 1
        if tuple(start) not in starts or tuple(end) != want_end:
            devs.append(("definition-range-differs-from-ast:" + typ,
                         where + " range=%s..%s ast=%s..%s" % (start, end, sorted(starts), want_end)))
    if code != lines[line - 1]:
        devs.append(("get_line_code-is-not-the-line:" + typ, where + " got=%r want=%r" % (code[:60], lines[line - 1][:60])))


def run_case(ctx, case):
    origin = case["origin"].split("@")[0]
    try:
        _run_case(ctx, case)
    finally:
        # the buffer pretended to be a corpus file: do not leave its tree behind for later cases that import that file
        boot.forget_path(str(boot.CORPUS / origin))


def _run_case(ctx, case):
    jedi = boot.jedi_boot()
    text = case["text"]
    if not corpus.is_compilable(text):
        ctx.discard("mutation broke compile()")
        return
    origin = case["origin"].split("@")[0]
    script_path = str(boot.CORPUS / origin)     # siblings (import_tree etc.) resolve as project files
    devs = []
    stats = Counter()
    boot.forget_path(script_path)
    with core.time_limit(150):
        s = boot.fresh_script(text, path=script_path)
        if s.get_syntax_errors():
            ctx.discard("parso reports a syntax error (grammar gap or mutation)")
            return
        ctx.count()
        # (a) + (b)
        try:
            toks = pyfront.name_tokens(text)
            binds = pyfront.binding_positions(text)
            ranges = pyfront.definition_ranges(text)
        except Exception as e:
            ctx.discard("oracle could not tokenize/parse: " + type(e).__name__)
            return
        names = s.get_names(all_scopes=True, definitions=True, references=True)
        got = Counter((n.line, n.column, n.name) for n in names)
        want = Counter(toks)
        if got != want:
            missing = sorted((want - got).elements())[:5]
            extra = sorted((got - want).elements())[:5]
            devs.append(("get_names-token-multiset", "missing=%s extra=%s" % (missing, extra)))
        for n in names:
            d = n.is_definition()
            w = (n.line, n.column) in binds
            if d != w and (n.line, n.column, n.name) in want:
                devs.append(("is_definition-%s-but-binding-%s" % (d, w), "%r at %s:%s" % (n.name, n.line, n.column)))
                break
        for n in names[:80]:
            check_obj(n, "get_names", script_path, text, devs, stats, ranges)
        # (c)
        if toks:
            lines = corpus.split_lines(text)
            for k in case["pick"]:
                line, col, string = toks[k % len(toks)]
                inside = col + (k // 7) % (len(string) + 1)
                for m in ("infer", "goto", "get_references", "help", "get_context"):
                    res = getattr(s, m)(line, inside)
                    for o in ([res] if m == "get_context" else res[:12]):
                        check_obj(o, m, script_path, text, devs, stats, ranges)
                comp = s.complete(line, inside)
                for o in comp[:8]:
                    check_obj(o, "complete", script_path, text, devs, stats)
            parens = [(t.start[0], t.start[1] + 1) for t in pyfront.tokens(text) if t.string == "("]
            for k in case["pick"][:3]:
                if parens:
                    line, col = parens[k % len(parens)]
                    for sig in s.get_signatures(line, col):
                        check_obj(sig, "get_signatures", script_path, text, devs, stats)
                        for p in sig.params:
                            check_obj(p, "get_signatures.params", script_path, text, devs, stats)
    for sig, detail in devs:
        ctx.judge(sig, detail, case)
    feats = []
    if "\r" in text:
        feats.append("non-LF-eol")
    if re.search(r"\\\r?\n", text):
        feats.append("continuation")
    if re.search(r"[^\x00-\x7f]", re.sub(r"#.*|'[^']*'|\"[^\"]*\"", "", text)):
        feats.append("non-ascii")
    if re.search(r"^\s*[\w.]+\s*,\s*[\w.*]+.*=|^\s*\w+\s*=\s*\w+\s*=", text, re.M):
        feats.append("unpacking")
    if stats["other_file"]:
        feats.append("other-file")
    for f in feats or ["plain"]:
        ctx.cls(f)
    for m_ in case["mut"] or ["unmutated"]:
        ctx.cls("mut:" + m_)
    ctx.extra["result_objects_checked"] = ctx.extra.get("result_objects_checked", 0) + stats["objects"]
    ctx.extra["definition_ranges_compared_with_ast"] = ctx.extra.get("definition_ranges_compared_with_ast", 0) + stats["exact_ranges"]
    ctx.extra["name_tokens_compared"] = ctx.extra.get("name_tokens_compared", 0) + len(toks)
    if feats:
        ctx.nontriv(text)
    ctx.sample({"origin": case["origin"], "mutators": case["mut"], "features": feats, "name_tokens": len(toks),
                "binding_tokens": len(binds), "result_objects_checked": stats["objects"], "text_head": text[:200]})


def shard(ctx):
    core.drive(ctx, cases(), lambda c: run_case(ctx, c), EXAMPLES[ctx.tier])


def replay(ctx, case):
    run_case(ctx, case)
