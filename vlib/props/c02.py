"""C02 — inferred types agree with what the program does when executed."""
from pathlib import Path
from hypothesis import strategies as st
from .. import boot, core, api, proggen, tracer

ID = "C02"
LEVEL = "exploration"
BUDGET = {"quick": 150, "thorough": 1700}
EXAMPLES = {"quick": 70, "thorough": 1500}
RULE = ("cases = executable programs built by vlib.proggen (assignment/unpacking, functions with positional/keyword/"
        "default/*args/**kwargs/keyword-only parameters, closures, lambdas, classes with __init__/attributes/methods/"
        "property/staticmethod/classmethod, single and multiple inheritance with super(), decorators incl. "
        "functools.wraps, generators/yield from, comprehensions, container literals and indexing, for/with/try/while/"
        "if/isinstance, annotations, docstring types, magic methods; single- and multi-module), each run in a fresh "
        "interpreter; for every module-level probe `pvN` (bound once, then used bare) the class of the run-time value "
        "must be among Script.infer() at the bare use, pointing at the class statement (file, line) found by ast; "
        "where the generator's flow tags say one value can reach the expression, infer must report exactly that. "
        "Non-trivial probe: the value's class is defined in generated source or the value passed through a call/"
        "attribute/subscript; distinct = hash(program, probe).")
ASSUMPTIONS = ["CPython 3.12 execution in a fresh interpreter is the semantic oracle", "vendored typeshed stdlib stubs",
               "probes are module-level single-assignment variables (parameters/self inside bodies are inferred by a "
               "documented heuristic and are not probed)", "programs stay below jedi's documented give-up limits"]

BUILTIN_ALIAS = {"NoneType": {"NoneType", "None"}, "function": {"function", "FunctionType"},
                 "generator": {"generator", "Generator", "GeneratorType"}}


@st.composite
def cases(draw):
    prog = draw(proggen.programs())
    return {"files": prog.files(), "main": "main_mod.py", "probes": prog.main.probes, "features": sorted(prog.features)}


def expected_key(desc, root, deflines):
    """What a jedi Name should look like for a run-time value description."""
    kind, tgt = desc["kind"], desc["target"]
    if kind == "instance" or kind == "class":
        jtype = "instance" if kind == "instance" else "class"
        name = tgt["qualname"].split(".")[-1]
        if tgt["module"] == "builtins" or not tgt.get("file") or not str(tgt["file"]).startswith(str(root)):
            return (jtype, name, "builtin", None)
        rel = str(Path(tgt["file"]).relative_to(root))
        return (jtype, name, rel, deflines[rel].get(tgt["qualname"]))
    if kind in ("function", "method"):
        name = (tgt.get("qualname") or "?").split(".")[-1]
        if not tgt.get("file") or not str(tgt["file"]).startswith(str(root)):
            return ("function", name, "builtin", None)
        rel = str(Path(tgt["file"]).relative_to(root))
        return ("function", name, rel, deflines[rel].get(tgt["qualname"]))
    if kind == "module":
        return ("module", tgt["module"].split(".")[-1], None, None)
    return None


def name_key(n, root):
    mp = n.module_path
    if mp is not None and str(mp).startswith(str(root)):
        return (n.type, n.name, str(Path(mp).relative_to(root)), n.line)
    if n.type == "module":
        return ("module", n.name, None, None)
    return (n.type, n.name, "builtin", None)


def keys_match(want, got):
    if want == got:
        return True
    if want[2] == "builtin" and got[2] == "builtin" and want[0] == got[0]:
        return got[1] in BUILTIN_ALIAS.get(want[1], {want[1]})
    return False


def run_case(ctx, case):
    jedi = boot.jedi_boot()
    root = boot.fresh_dir("c02") / "proj"
    root.mkdir()
    tracer.write_project(root, case["files"])
    names = [p["name"] for p in case["probes"]]
    rep = tracer.run(root, case["main"], names)
    if rep is None:
        ctx.discard("program timed out")
        return
    if rep["exc"]:
        ctx.discard("program raised (generator bug): " + rep["exc"].split(":")[0])
        return
    ctx.count()
    deflines = {rel: tracer.def_lines(text) for rel, text in case["files"].items()}
    main_text = case["files"][case["main"]]
    main_path = str(root / case["main"])
    devs = []
    project = jedi.Project(str(root))
    with core.time_limit(240):
        boot.forget_path(main_path)
        for p in case["probes"]:
            # one Script per probe: results of one query must not depend on the ones asked before it (that is C16's
            # subject; inference-state caches poisoned by an earlier give-up were observed to change later answers)
            script = jedi.Script(main_text, path=main_path, project=project)
            desc = rep["probes"].get(p["name"])
            if desc is None or desc["kind"] == "error":
                continue
            want = expected_key(desc, root, deflines)
            if want is None:
                continue
            tag = (p["tags"] or ["plain"])[-1]
            try:
                res = script.infer(p["line"], p["col"])
            except Exception as e:
                devs.append((api.bucket(e, "infer"), api.tb_tail(e)))
                continue
            got = [name_key(n, root) for n in res]
            sound = any(keys_match(want, g) for g in got)
            ctx.cls("tag:" + tag)
            source_line = main_text.split("\n")[p["line"] - 2] if p["line"] >= 2 else ""
            detail = "probe %s (line %d: %s) run-time=%s infer=%s" % (p["name"], p["line"], source_line.strip(), want, got)
            if not sound:
                devs.append(("unsound:" + tag, detail))
            elif p["exact"] and len(set(got)) != 1:
                devs.append(("inexact:" + tag, detail))
            if want[2] != "builtin" or p["tags"]:
                ctx.nontriv([main_text, p["name"]])
            ctx.extra["probes"] = ctx.extra.get("probes", 0) + 1
    for f in case["features"]:
        ctx.cls("feature:" + f)
    ctx.sample({"features": case["features"], "probes": len(case["probes"]), "lines": main_text.count("\n"),
                "main_head": main_text[:600]}, limit=2)
    for sig, detail in devs:
        ctx.judge(sig, detail, case)


def shard(ctx):
    core.drive(ctx, cases(), lambda c: run_case(ctx, c), EXAMPLES[ctx.tier])


def replay(ctx, case):
    run_case(ctx, case)
