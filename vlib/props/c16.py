"""C16 — results are deterministic and repeatable."""
import shutil
from hypothesis import strategies as st
from .. import boot, core, corpus, api, proggen, tracer
from ..oracles import pyfront

ID = "C16"
LEVEL = "exploration"
BUDGET = {"quick": 150, "thorough": 1500}
EXAMPLES = {"quick": 5, "thorough": 90}          # cross-process cases per shard
EXAMPLES_SEQ = {"quick": 30, "thorough": 900}     # same-Script sequences per shard
RULE = ("(i) cross-process: valid corpus chunks and generated programs x 14 identifier positions x {complete, infer, "
        "goto, help, get_references, get_signatures} are answered in three fresh processes with PYTHONHASHSEED 0 / 1 / "
        "seed-derived and 0 / 10^3 / 10^5 junk allocations before importing jedi; serialised ordered results must be "
        "equal (goto and help compared as sets). (ii) same Script: on one Script three pool queries are asked, then 1-6 "
        "other queries drawn with repetition (any method at any identifier, including out-of-range positions that "
        "raise ValueError and get_references), then the pool queries again; each must return the same serialised "
        "result as the first time. Non-trivial: the compared result has >=2 elements, or the history contains a "
        "failing or get_references query between the two askings; distinct = hash(text, query[, history]). (iii) a "
        "Hypothesis RuleBasedStateMachine over one Script: rules ask / ask out of range / ask again / compare with a "
        "Script asked nothing else, 8 steps (the quantifier's bound), model = first answer per query.")
ASSUMPTIONS = ["results are compared as (name, type, module_path, line, column, full_name, description[, complete]) tuples",
               "each of the three reference processes has a private warm parser cache copied from the same snapshot",
               "vendored typeshed"]

METHODS = ["complete", "infer", "goto", "help", "get_references", "get_signatures", "get_context"]
SETLIKE = {"goto", "help"}


@st.composite
def sources(draw):
    if draw(st.booleans()):
        name, text, applied = draw(corpus.valid_sources(max_lines=60))
        return {"origin": name, "text": text, "files": None}
    prog = draw(proggen.programs(max_blocks=5))
    files = prog.files()
    text = files["main_mod.py"]
    if draw(st.booleans()):
        # the whole program inside a regular package below the project root: the buffer's directory then reaches the module
        # search path only through the project's "ancestor directories of the buffer" rule
        files = {"pkg_dir/" + k: v for k, v in files.items()}
        files["pkg_dir/__init__.py"] = ""
        return {"origin": "generated-in-package", "text": text, "files": files, "main": "pkg_dir/main_mod.py"}
    return {"origin": "generated", "text": text, "files": files}


@st.composite
def cross_cases(draw):
    src = draw(sources())
    picks = draw(st.lists(st.integers(0, 10 ** 6), min_size=14, max_size=14))
    return {"kind": "cross", "src": src, "picks": picks, "third_seed": draw(st.integers(2, 4000))}


@st.composite
def seq_cases(draw):
    src = draw(sources())
    pool = draw(st.lists(st.tuples(st.sampled_from(METHODS), st.integers(0, 10 ** 6)), min_size=3, max_size=3))
    if draw(st.booleans()):
        noise = draw(st.lists(st.tuples(st.sampled_from(METHODS + ["oor", "get_references", "infer", "infer"]), st.integers(0, 10 ** 6)),
                              min_size=1, max_size=6))
    else:   # histories of one method only (e.g. seven infer calls in a row)
        m = draw(st.sampled_from(["infer", "infer", "goto", "complete", "get_signatures"]))
        noise = [(m, k) for k in draw(st.lists(st.integers(0, 10 ** 6), min_size=4, max_size=7))]
    same_callee = draw(st.integers(0, 2)) == 0      # history: infer at up to 7 results of calls to ONE callee
    return {"kind": "seq", "src": src, "pool": pool, "noise": noise, "same_callee": same_callee,
            "callee_pick": draw(st.integers(0, 10 ** 6))}


def positions(text):
    try:
        toks = pyfront.name_tokens(text)
    except Exception:
        return []
    return [(l, c + len(s) // 2 + 1 if len(s) > 1 else c + 1) for l, c, s in toks]


def canon(method, answer):
    if "exc" in answer:
        return ("exc", answer["exc"])
    items = [tuple(sorted(d.items())) if isinstance(d, dict) else tuple(map(str, d)) for d in answer["ok"]]
    items = [str(i) for i in items]
    return tuple(sorted(items)) if method in SETLIKE else tuple(items)


def diff_kind(x, y):
    """which serialised fields differ between two answers of equal length"""
    import re
    if x and x[0] == "exc" or y and y[0] == "exc":
        return "exception"
    if len(x) != len(y):
        return "different-number-of-results"
    fields = set()
    # align the two answers by (name, complete) before comparing field by field: sorting the serialised items puts two
    # entries that differ in their column or path at different places and then every field seems to differ
    def key_(item):
        m = re.search(r"\('name', ('[^']*'|None)\)", item)
        c = re.search(r"\('complete', ('[^']*'|None)\)", item)
        return (m.group(1) if m else "", c.group(1) if c else "")
    xs, ys = sorted(x, key=lambda i: (key_(i), i)), sorted(y, key=lambda i: (key_(i), i))
    for a, b in zip(xs, ys):
        fa = dict(re.findall(r"\('(\w+)', ([^()]*?)\)(?:, |\)$)", a + ")"))
        fb = dict(re.findall(r"\('(\w+)', ([^()]*?)\)(?:, |\)$)", b + ")"))
        fields |= {k for k in set(fa) | set(fb) if fa.get(k) != fb.get(k)}
    return "fields=" + "+".join(sorted(fields)) if fields else "order"


def run_cross(ctx, case):
    jedi = boot.jedi_boot()
    text = case["src"]["text"]
    pos = positions(text)
    if not pos:
        ctx.discard("no identifier positions")
        return
    root = boot.fresh_dir("c16")
    path = None
    project = None
    if case["src"]["files"]:
        tracer.write_project(root / "proj", case["src"]["files"])
        path = str(root / "proj" / case["src"].get("main", "main_mod.py"))
        project = str(root / "proj")
    queries = []
    for i, k in enumerate(case["picks"]):
        l, c = pos[k % len(pos)]
        queries.append([METHODS[i % len(METHODS)], l, c])
    job = {"id": "j", "text": text, "path": path, "project": project, "queries": queries}
    # snapshot of a warm cache, copied for every process so that none of them sees another's writes
    warm = boot.tmp_root() / "c16-warm-cache"
    if not warm.exists():
        boot.run_refworker([{"id": "w", "text": "import os\nos.path.join('a').upper", "path": None, "project": None,
                             "queries": [["infer", 2, 20], ["complete", 2, 3]]}], cache_dir=warm)
    results = []
    for hs, junk in (("0", 0), ("1", 1000), (str(case["third_seed"]), 100000)):
        cdir = root / ("cache-" + hs)
        if warm.exists():
            shutil.copytree(warm, cdir)
        r = boot.run_refworker([job], hashseed=hs, junk=junk, cache_dir=cdir)
        shutil.rmtree(cdir, ignore_errors=True)
        if r is None:
            ctx.discard("reference process failed or timed out")
            return
        results.append(r["j"])
    devs = []
    for qi, q in enumerate(queries):
        ctx.count()
        a = [canon(q[0], res[qi]) for res in results]
        ctx.cls("method:" + q[0])
        if any(isinstance(x, tuple) and len(x) >= 2 and x[0] != "exc" for x in a):
            ctx.nontriv([text, q])
        if a[0] != a[1] or a[0] != a[2]:
            same_set = all(sorted(x) == sorted(a[0]) for x in a) if all(x and x[0] != "exc" for x in a) else False
            kind = "order-differs" if same_set else "content-differs"
            if q[0] == "complete" and not same_set and all("ok" in res[qi] for res in results):
                # shape class of a pinned finding: the same names with the same completions in the same order in every
                # process - what differs is WHICH of several same-named definitions (an attribute defined by two classes
                # of a union receiver) stands behind one of them
                nm = [[(d.get("name"), d.get("complete")) for d in res[qi]["ok"]] for res in results]
                if nm[0] == nm[1] == nm[2]:
                    kind, q0 = "content-differs", q[0] + ":same-names-other-definition"
                    devs.append(("cross-process-%s:%s" % (kind, q0), "%s at %s in %s: %s | %s | %s" % (
                        q[0], (q[1], q[2]), case["src"]["origin"], str(a[0])[:200], str(a[1])[:200], str(a[2])[:200])))
                    continue
            devs.append(("cross-process-%s:%s" % (kind, q[0]), "%s at %s in %s: %s | %s | %s" % (
                q[0], (q[1], q[2]), case["src"]["origin"], str(a[0])[:200], str(a[1])[:200], str(a[2])[:200])))
    ctx.sample({"origin": case["src"]["origin"], "queries": queries[:4], "hashseeds": ["0", "1", str(case["third_seed"])]}, limit=2)
    for sig, detail in devs:
        ctx.judge(sig, detail, case)


def run_seq(ctx, case):
    jedi = boot.jedi_boot()
    text = case["src"]["text"]
    pos = positions(text)
    if not pos:
        ctx.discard("no identifier positions")
        return
    root = boot.fresh_dir("c16s")
    path, project = None, None
    if case["src"]["files"]:
        tracer.write_project(root / "proj", case["src"]["files"])
        path = str(root / "proj" / case["src"].get("main", "main_mod.py"))
        project = jedi.Project(str(root / "proj"))
    nlines = len(corpus.split_lines(text))

    def ask(s, method, k):
        if method == "oor":
            line, col = nlines + 1 + k % 3, k % 5
            method = METHODS[k % len(METHODS)]
        else:
            line, col = pos[k % len(pos)]
        try:
            res = getattr(s, method)(line, col)
            return method, (line, col), canon(method, {"ok": api.ser_result(method, res)})
        except Exception as e:
            return method, (line, col), ("exc", type(e).__name__)

    if case.get("same_callee"):
        # history: infer the results of eight calls to ONE callee (an existing call statement repeated), then ask again
        import re
        lines_ = text.split("\n")
        cands = [l_ for l_ in lines_ if re.match(r"(pv_\w+) = (\w+(\.\w+)*)\(.*\)$", l_) and "lambda" not in l_]
        if cands:
            rhs = cands[case["callee_pick"] % len(cands)].split(" = ", 1)[1]
            # insert before the final prints so that the text stays a program
            cut = next((i_ for i_, l_ in enumerate(lines_) if l_.startswith("print(")), len(lines_))
            extra = ["rep_call_%d = %s" % (i_, rhs) for i_ in range(8)]
            lines_[cut:cut] = extra
            text = "\n".join(lines_)
            pos = positions(text)
            first_tok = {}
            for k_, (l, c) in enumerate(pos):
                first_tok.setdefault(l, k_)
            ks = [first_tok[cut + 1 + i_] for i_ in range(8) if cut + 1 + i_ in first_tok]
            if len(ks) == 8:
                case = dict(case, noise=[("infer", k_) for k_ in ks[:-1]], late=("infer", ks[-1] - 1))
                nlines = len(corpus.split_lines(text))
                ctx.cls("history:eight-infers-of-one-callee")
                if path:
                    from pathlib import Path as _P
                    _P(path).write_text(text)
    devs = []
    with core.time_limit(240):
        s = boot.fresh_script(text, path=path, project=project)
        first = [ask(s, m, k) for m, k in case["pool"]]
        between = [ask(s, m, k) for m, k in case["noise"]]
        # an extra query asked only AFTER the history (directly after it, before anything else), and every pool query,
        # are also compared with a fresh Script: "the same query on the same text and project returns the same results"
        # whatever was asked before
        late = case.get("late") or case["noise"][-1]
        late_ans = ask(s, "infer" if late[0] == "oor" else late[0], late[1] + 1)
        again = [ask(s, m, k) for m, k in case["pool"]]
        fresh = []
        for m, k in list(case["pool"]) + [("infer" if late[0] == "oor" else late[0], late[1] + 1)]:
            fs = jedi.Script(text, path=path, project=project)
            fresh.append(ask(fs, m, k))
    special = any(b[2][0] == "exc" for b in between if b[2]) or any(b[0] == "get_references" for b in between)
    for f, a in zip(first, again):
        ctx.count()
        ctx.cls("seq-method:" + f[0])
        if (len(f[2]) >= 2 and f[2][0] != "exc") or special:
            ctx.nontriv([text, f[0], f[1], [b[:2] for b in between]])
        if f[2] != a[2] and ("exc" in (f[2][:1] + a[2][:1])):
            ctx.cls("not-judged:internal-exception(C01)")
        elif f[2] != a[2]:
            devs.append(("same-script-answer-changed:%s:%s" % (f[0], "unstable" if f[0] == "get_references" else diff_kind(f[2], a[2])), "%s at %s in %s: first %s, after %s: %s" % (
                f[0], f[1], case["src"]["origin"], str(f[2])[:200], [(b[0], b[1]) for b in between], str(a[2])[:200])))
    for a, f in zip(again + [late_ans], fresh):
        ctx.count()
        if a[2] != f[2] and ("exc" in (f[2][:1] + a[2][:1])):
            ctx.cls("not-judged:internal-exception(C01)")
        elif a[2] != f[2]:
            devs.append((history_sig(a[0], a[2], f[2]), "%s at %s in %s: after history %s -> %s ; fresh Script -> %s" % (
                a[0], a[1], case["src"]["origin"], [(b[0], b[1]) for b in between], str(a[2])[:200], str(f[2])[:200])))
    ctx.sample({"origin": case["src"]["origin"], "pool": [(f[0], f[1]) for f in first], "between": [(b[0], b[1], "raised" if b[2] and b[2][0] == "exc" else "ok") for b in between]}, limit=3)
    for sig, detail in devs:
        ctx.judge(sig, detail, case)


def changed_sig(method, first, again):
    return "same-script-answer-changed:%s:%s" % (method, "unstable" if method == "get_references" else diff_kind(first, again))


def history_sig(method, with_history, fresh):
    kind = diff_kind(with_history, fresh)
    if kind.startswith("fields=") and set(kind[7:].split("+")) <= {"line", "column", "module_path", "description"}:
        kind = "location"          # same names, reported at another place (stub vs module)
    elif method == "complete" and kind.startswith("fields=") and "name" not in kind[7:].split("+") and "complete" not in kind[7:].split("+"):
        # the same names with the same completions; WHICH of several same-named definitions (an attribute defined by
        # two classes of a union receiver) stands behind one of them differs - pinned root cause, see the cross-process part
        kind = "same-names-other-definition"
    elif kind not in ("order",) and not kind.startswith("fields="):
        kind = "different-results"
    if method == "get_references":
        kind = "unstable"      # one family: get_references results depend on what was inferred before
    return "answer-depends-on-query-history:%s:%s" % (method, kind)


# ---------------------------------------------------------------------------------------------- stateful stream
class HistoryRunner:
    """One Script and the history of queries asked on it; the model is `first answer per query`.  Used by the Hypothesis
    state machine below and, step by step without Hypothesis, by replay()."""

    def __init__(self, ctx, src):
        jedi = boot.jedi_boot()
        self.ctx, self.src, self.jedi = ctx, src, jedi
        self.text = src["text"]
        self.pos = positions(self.text)
        root = boot.fresh_dir("c16m")
        self.path, self.project = None, None
        if src["files"]:
            tracer.write_project(root / "proj", src["files"])
            self.path = str(root / "proj" / src.get("main", "main_mod.py"))
            self.project = jedi.Project(str(root / "proj"))
        self.nlines = len(corpus.split_lines(self.text))
        self.script = boot.fresh_script(self.text, path=self.path, project=self.project)
        self.model = {}        # (method, line, col) -> first answer
        self.steps = []        # the history as plain data: [rule, method, k]
        self.failed_between = False

    def case(self):
        return {"kind": "machine", "src": self.src, "steps": list(self.steps)}

    def _ask(self, script, method, line, col):
        try:
            return canon(method, {"ok": api.ser_result(method, getattr(script, method)(line, col))})
        except Exception as e:
            return ("exc", type(e).__name__)

    def step(self, rule_, method, k):
        """rule_ in {ask, oor, reask, fresh}; returns nothing, judges through ctx."""
        if not self.pos or (self.ctx.out_of_time() and not self.ctx.replaying):
            return
        self.steps.append([rule_, method, k])
        ctx = self.ctx
        with core.time_limit(120):
            if rule_ == "oor":
                ans = self._ask(self.script, method, self.nlines + 1 + k % 3, k % 5)
                self.failed_between = self.failed_between or ans[:1] == ("exc",)
                ctx.cls("machine-rule:out-of-range")
                return
            if rule_ in ("reask", "fresh"):
                if not self.model:
                    return
                key = sorted(self.model)[k % len(self.model)]
                method, line, col = key
            else:
                line, col = self.pos[k % len(self.pos)]
                key = (method, line, col)
            ctx.count()
            ctx.cls("machine-rule:" + rule_, "seq-method:" + method)
            if rule_ == "fresh":
                mine = self._ask(self.script, method, line, col)
                alone = self._ask(self.jedi.Script(self.text, path=self.path, project=self.project), method, line, col)
                if mine != alone and "exc" in (mine[:1] + alone[:1]):
                    ctx.cls("not-judged:internal-exception(C01)")
                elif mine != alone:
                    ctx.judge(history_sig(method, mine, alone), "%s at %s in %s after %s: this Script %s ; fresh Script %s" % (
                        method, (line, col), self.src["origin"], self.steps[:-1], str(mine)[:200], str(alone)[:200]), self.case())
                return
            ans = self._ask(self.script, method, line, col)
            if key not in self.model:
                self.model[key] = ans
                return
            first = self.model[key]
            if (len(first) >= 2 and first[0] != "exc") or self.failed_between:
                ctx.nontriv([self.text, key, self.steps])
            if first != ans and "exc" in (first[:1] + ans[:1]):
                ctx.cls("not-judged:internal-exception(C01)")
            elif first != ans:
                ctx.judge(changed_sig(method, first, ans), "%s at %s in %s: first %s, after %s: %s" % (
                    method, (line, col), self.src["origin"], str(first)[:200], self.steps[:-1], str(ans)[:200]), self.case())


def machine_class(ctx):
    from hypothesis.stateful import RuleBasedStateMachine, rule, initialize, precondition

    class QueryHistory(RuleBasedStateMachine):
        """Histories of up to 8 queries on one Script (the property's quantifier): any method at any identifier, failing
        (out-of-range) queries, repetitions; the model is the first answer to each query, checked on every repetition,
        and a Script that was asked nothing else."""
        last_violation = None

        def __init__(self):
            super().__init__()
            self.h = None

        @initialize(src=sources())
        def open(self, src):
            self.h = HistoryRunner(ctx, src)

        def _do(self, *a):
            try:
                self.h.step(*a)
            except core.Violation as v:
                type(self).last_violation = v
                raise
            except core.Inconclusive:
                ctx.inconclusive += 1

        @rule(m=st.sampled_from(METHODS), k=st.integers(0, 10 ** 6))
        def ask(self, m, k):
            self._do("ask", m, k)

        @rule(m=st.sampled_from(["infer", "goto", "get_references", "complete"]), k=st.integers(0, 10 ** 6))
        def ask_common(self, m, k):
            self._do("ask", m, k)

        @rule(m=st.sampled_from(METHODS), k=st.integers(0, 10 ** 6))
        def ask_out_of_range(self, m, k):
            self._do("oor", m, k)

        @precondition(lambda self: self.h is not None and self.h.model)
        @rule(k=st.integers(0, 10 ** 6))
        def ask_again(self, k):
            self._do("reask", None, k)

        @precondition(lambda self: self.h is not None and self.h.model)
        @rule(k=st.integers(0, 10 ** 6))
        def compare_with_fresh_script(self, k):
            self._do("fresh", None, k)

    return QueryHistory


def run_machine_case(ctx, case):
    h = HistoryRunner(ctx, case["src"])
    for rule_, method, k in case["steps"]:
        h.step(rule_, method, k)


def run_case(ctx, case):
    if case["kind"] == "cross":
        return run_cross(ctx, case)
    if case["kind"] == "machine":
        return run_machine_case(ctx, case)
    return run_seq(ctx, case)


EXAMPLES_MACHINE = {"quick": 12, "thorough": 400}


def shard(ctx):
    core.drive(ctx, seq_cases(), lambda c: run_case(ctx, c), EXAMPLES_SEQ[ctx.tier], salt=5)
    core.drive_machine(ctx, machine_class(ctx), EXAMPLES_MACHINE[ctx.tier], steps=8, salt=9)
    core.drive(ctx, cross_cases(), lambda c: run_case(ctx, c), EXAMPLES[ctx.tier])


def replay(ctx, case):
    run_case(ctx, case)
