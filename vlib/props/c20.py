"""C20 — project settings round-trip and shape sys.path as documented."""
import os
import json
from pathlib import Path
from hypothesis import strategies as st
from .. import boot, core, api

ID = "C20"
LEVEL = "exploration"
BUDGET = {"quick": 120, "thorough": 1200}
EXAMPLES = {"quick": 170, "thorough": 4000}
RULE = ("cases = Project constructor arguments (path as str/Path, absolute/relative, unicode; sys_path None or a list "
        "with duplicates, str/Path entries and entries that are string prefixes of each other; added_sys_path; "
        "smart_sys_path and load_unsafe_extensions flags; environment_path None or '/venv/bin/python') x a script "
        "location inside the project at depth 0..4 (with/without __init__.py on the way), outside it, or in a sibling "
        "directory whose name extends the project's name. Checked: save()/load() round trip of all six settings; "
        "Script's effective search path == the reference model dedup([project if smart] + base + added + ancestors "
        "inside the project, farthest first, skipping __init__ directories); with two same-named marker modules in "
        "two entries, infer lands in the one of the earlier entry. Non-trivial: a duplicate or prefix-related pair of "
        "entries, script depth >= 2, sibling-prefix location, or non-default flags; distinct = hash(case).")
ASSUMPTIONS = ["script._inference_state.get_sys_path() is the observation point the property names",
               "the environment's own sys.path (minus '') is taken from Environment.get_sys_path()",
               "no buildout.cfg is generated (discover_buildout_paths contributes nothing)"]

NAMES = ["pk", "pkg2", "lib", "src", "ünï", "deep", "pk_extra"]


@st.composite
def cases(draw):
    proj_name = draw(st.sampled_from(["app", "proj", "prö"]))
    path_kind = draw(st.sampled_from(["str-abs", "str-abs", "path-abs", "str-rel", "path-rel"]))
    entry_pool = ["E:" + n for n in NAMES] + ["P:" + proj_name, "P:" + proj_name + "/inner", "E:pk/sub"]
    def entries(maxn):
        es = draw(st.lists(st.sampled_from(entry_pool), min_size=0, max_size=maxn))
        return [(e, draw(st.sampled_from(["str", "str", "path"]))) for e in es]
    sys_path = draw(st.one_of(st.none(), st.just("ENV+"), st.builds(lambda: None))) if False else None
    sp_kind = draw(st.sampled_from(["none", "none", "list", "list", "env-plus"]))
    sp = entries(4) if sp_kind != "none" else None
    added = entries(3)
    loc = draw(st.sampled_from(["inside", "inside", "inside", "outside", "sibling-prefix", "no-path", "project-root"]))
    depth = draw(st.integers(0, 4))
    dirs = [draw(st.sampled_from(["aa", "bb", "cc", "inner"])) + str(i) for i in range(depth)]
    inits = [draw(st.booleans()) for _ in range(depth)]
    return {"proj": proj_name, "path_kind": path_kind, "sp_kind": sp_kind, "sys_path": sp, "added": added,
            "smart": draw(st.sampled_from([True, True, False])), "unsafe": draw(st.sampled_from([False, False, True])),
            "env": draw(st.sampled_from([None, None, "/venv/bin/python"])), "loc": loc, "dirs": dirs, "inits": inits,
            "dup": draw(st.sampled_from(["sys_path", "added", "none"]))}


def _dedup(seq):
    out, seen = [], set()
    for p in seq:
        if p not in seen:
            seen.add(p)
            out.append(p)
    return out


def model(project_path_abs, smart, base, added, script_path):
    """The documented composition of the effective path (reference model, independent of jedi's code)."""
    prefixed = [str(project_path_abs)] if smart else []
    suffixed = list(added)
    if smart and script_path is not None:
        anc = []
        proj = Path(project_path_abs)
        for parent in Path(script_path).parents:            # nearest first
            if parent == proj or proj not in parent.parents:
                break
            if (parent / "__init__.py").is_file():
                continue
            anc.append(str(parent))
        suffixed += list(reversed(anc))                      # farthest first
    return _dedup(prefixed + list(base) + suffixed)


def run_case(ctx, case):
    jedi = boot.jedi_boot()
    root = boot.fresh_dir("c20")
    proj = root / case["proj"]
    proj.mkdir()
    ents = root / "entries"

    def resolve(e):
        kind, rel = e.split(":", 1)
        p = (ents / rel) if kind == "E" else (root / rel)
        p.mkdir(parents=True, exist_ok=True)
        return p

    def conv(lst):
        return [Path(resolve(e)) if how == "path" else str(resolve(e)) for e, how in lst] if lst is not None else None

    old_cwd = os.getcwd()
    os.chdir(root)
    try:
        sp = conv(case["sys_path"])
        added = conv(case["added"]) or []
        # marker modules in every entry directory
        all_dirs = [Path(str(p)) for p in (sp or []) + added]
        for d_ in all_dirs + [proj]:
            (Path(d_) / "dupmod_marker.py").write_text("WHERE = %r\n" % str(d_))
        env = None
        with core.time_limit(120):
            if case["sp_kind"] == "env-plus":
                base_env = jedi.get_default_environment() if case["env"] is None else jedi.create_environment(case["env"], safe=False)
                sp = [p for p in base_env.get_sys_path() if p != ""] + (sp or [])
            path_arg = {"str-abs": str(proj), "path-abs": proj, "str-rel": case["proj"], "path-rel": Path(case["proj"])}[case["path_kind"]]
            kw = dict(environment_path=case["env"], load_unsafe_extensions=case["unsafe"], sys_path=sp,
                      added_sys_path=added, smart_sys_path=case["smart"])
            project = jedi.Project(path_arg, **kw)
            ctx.count()
            devs = []
            # ---- round trip
            project.save()
            loaded = jedi.Project.load(project.path)
            exp = {"path": str(Path(os.path.abspath(str(project.path)))), "sys_path": None if sp is None else [str(p) for p in sp],
                   "added_sys_path": [str(p) for p in added], "smart_sys_path": case["smart"],
                   "load_unsafe_extensions": case["unsafe"], "environment_path": case["env"]}
            got = {"path": str(Path(os.path.abspath(str(loaded.path)))), "sys_path": loaded.sys_path, "added_sys_path": loaded.added_sys_path,
                   "smart_sys_path": loaded.smart_sys_path, "load_unsafe_extensions": loaded.load_unsafe_extensions,
                   "environment_path": loaded._environment_path}
            for k in exp:
                if exp[k] != got[k]:
                    devs.append(("round-trip:" + k, "saved %r loaded %r" % (exp[k], got[k])))
            # ---- script location
            loc = case["loc"]
            if loc == "no-path":
                spath = None
            else:
                if loc == "inside":
                    d = proj
                elif loc == "project-root":
                    d = proj
                elif loc == "outside":
                    d = root / "elsewhere"
                else:
                    d = root / (case["proj"] + "-tools")
                if loc != "project-root":
                    for name, init in zip(case["dirs"], case["inits"]):
                        d = d / name
                        d.mkdir(parents=True, exist_ok=True)
                        if init:
                            (d / "__init__.py").write_text("")
                d.mkdir(parents=True, exist_ok=True)
                spath = d / "script_file.py"
            code = "import dupmod_marker\ndupmod_marker\n"
            script = boot.fresh_script(code, path=str(spath) if spath else None, project=project)
            eff = list(script._inference_state.get_sys_path())
            environment = project.get_environment()
            base = [str(p) for p in sp] if sp is not None else [p for p in environment.get_sys_path() if p != ""]
            want = model(os.path.abspath(str(project.path)), case["smart"], base, [str(p) for p in added],
                         str(spath) if spath else None)
            shape = "%s:%s" % (case["path_kind"], loc)
            if len(eff) != len(set(eff)):
                devs.append(("effective-path-has-duplicates", "%s" % eff))
            if eff != want:
                devs.append(("effective-path-differs-from-model:" + shape,
                             "jedi=%s model=%s" % ([p.replace(str(root), "<T>") for p in eff], [p.replace(str(root), "<T>") for p in want])))
            else:
                # ---- import resolution uses that path: the marker in the earliest entry wins
                first = None
                candidates = [str(spath.parent)] if False else []
                for p in eff:
                    if (Path(p) / "dupmod_marker.py").is_file():
                        first = str(Path(p) / "dupmod_marker.py")
                        break
                res = script.infer(2, 3)
                got_paths = sorted({str(n.module_path) for n in res if n.module_path})
                if first is None:
                    if got_paths:
                        devs.append(("import-resolved-outside-effective-path", "%s" % got_paths))
                elif got_paths != [first]:
                    devs.append(("import-does-not-use-first-entry:" + shape, "infer=%s expected %s (path %s)" % (got_paths, first, eff[:6])))
                else:
                    ctx.extra["import_resolutions_checked"] = ctx.extra.get("import_resolutions_checked", 0) + 1
        strs = [str(p) for p in (sp or [])] + [str(p) for p in added]
        nontriv = len(strs) != len(set(strs)) or any(a != b and b.startswith(a) for a in strs for b in strs) \
            or (case["loc"] == "inside" and len(case["dirs"]) >= 2) or case["loc"] == "sibling-prefix" \
            or not case["smart"] or case["unsafe"] or case["env"]
        ctx.cls("loc:" + case["loc"], "path:" + case["path_kind"], "sys_path:" + case["sp_kind"], "smart" if case["smart"] else "not-smart")
        if nontriv:
            ctx.nontriv(case)
        ctx.sample({"case": case, "effective_path": [p.replace(str(root), "<T>") for p in eff][-6:]}, limit=4)
    finally:
        os.chdir(old_cwd)
    for sig, detail in devs:
        ctx.judge(sig, detail, case)


def shard(ctx):
    core.drive(ctx, cases(), lambda c: run_case(ctx, c), EXAMPLES[ctx.tier])


def replay(ctx, case):
    run_case(ctx, case)
