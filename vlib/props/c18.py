"""C18 — get_context, parent() and full_name describe the lexical nesting."""
import ast
import tokenize
import unicodedata
from pathlib import Path
from hypothesis import strategies as st
from .. import boot, core, corpus, api
from ..oracles import pyfront

ID = "C18"
LEVEL = "exploration"
BUDGET = {"quick": 130, "thorough": 1500}
EXAMPLES = {"quick": 320, "thorough": 6000}
RULE = ("cases = (a) valid frozen-corpus chunks under layout mutators and (b) generated nesting programs "
        "(def/async def/class/lambda/comprehension/decorators/one-line bodies, depth<=5), written as module "
        "pkg[.sub].mod (or a package __init__) of a generated project; oracle = ast nesting: get_context at every "
        "identifier token (<=120 per case) is the innermost def/class whose body contains it (headers judged weakly, "
        "decorators = enclosing scope), parent() chain of every definition = enclosing defs/classes up to the module, "
        "full_name of module/class-level def/class/assignment = dotted module path + lexical __qualname__. "
        "Non-trivial: a judged position nested >=2 deep or inside async/decorated/lambda/comprehension; "
        "distinct = hash(text, module path).")
ASSUMPTIONS = ["CPython ast as nesting oracle; __qualname__ of def/class is lexical, so it is derived from ast nesting",
               "all generated directories are regular packages (unique dotted path)", "vendored typeshed"]

# ---------------------------------------------------------------------------- generator of nesting programs
_ID = st.sampled_from(["alpha", "beta", "gamma", "delta", "omega", "kappa", "sigma", "theta"])


@st.composite
def _expr(draw, depth):
    k = draw(st.sampled_from(["lit", "name", "lambda", "listcomp", "call", "dictcomp", "genexp", "nested_lambda"]))
    a, b = draw(_ID), draw(_ID)
    return {
        "lit": "1", "name": a, "lambda": "lambda %s: %s + 1" % (a, a), "listcomp": "[%s for %s in range(3)]" % (a, a),
        "call": "%s(%s)" % (a, b), "dictcomp": "{%s: %s for %s in (1, 2)}" % (a, b, a),
        "genexp": "list(%s for %s in [%s])" % (a, a, b),
        "nested_lambda": "lambda %s: [lambda %s: %s for %s in ()]" % (a, b, a, b),
    }[k]


@st.composite
def _block(draw, depth, indent, in_class=False):
    lines = []
    pad = " " * indent
    n = draw(st.integers(1, 3 if depth < 3 else 2))
    for _ in range(n):
        kind = draw(st.sampled_from(["assign", "assign", "def", "def", "class", "async", "if", "for", "with", "try",
                                     "oneline", "return_expr", "selfattr"]))
        if kind == "selfattr" and (depth >= 3 or in_class):
            kind = "assign"
        if depth >= 5 and kind in ("def", "class", "async", "if", "for", "with", "try"):
            kind = "assign"
        name = draw(_ID) + str(draw(st.integers(0, 9)))
        if kind == "selfattr":
            # attributes of self assigned in a method, in a closure of it and in a method of a class nested in that
            # closure; all of them are definitions reachable through the instance (goto on inst.attr)
            cname, m, inner = name.capitalize(), draw(_ID) + "_m", draw(_ID) + "_in"
            a1, a2, a3 = name + "_a1", name + "_a2", name + "_a3"
            lines += ["%sclass %s:" % (pad, cname), "%s    def %s(self):" % (pad, m), "%s        self.%s = 1" % (pad, a1),
                      "%s        def %s():" % (pad, inner), "%s            self.%s = %s" % (pad, a2, draw(_expr(depth)))]
            if draw(st.booleans()):
                lines += ["%s            class Undo:" % pad, "%s                def run(this):" % pad,
                          "%s                    self.%s = 2" % (pad, a3)]
            else:
                a3 = a1
            lines += ["%s        %s()" % (pad, inner), "%s        return self.%s" % (pad, a2),
                      "%s%s_inst = %s()" % (pad, name, cname),
                      "%s%s_inst.%s, %s_inst.%s, %s_inst.%s" % (pad, name, a1, name, a2, name, a3)]
            continue
        if kind == "assign":
            lines.append("%s%s = %s" % (pad, name, draw(_expr(depth))))
        elif kind == "return_expr":
            lines.append("%s%s" % (pad, draw(_expr(depth))))
        elif kind in ("def", "async", "oneline"):
            if draw(st.booleans()):
                lines.append("%s@%s(%s)" % (pad, draw(_ID), draw(_ID)) if draw(st.booleans()) else "%s@%s" % (pad, draw(_ID)))
            params = draw(st.sampled_from(["", "self", "self, %s=%s" % (draw(_ID), draw(_ID)), "%s, *%s, **%s" % (draw(_ID), draw(_ID), draw(_ID)),
                                           "%s: %s = (lambda: 0)" % (draw(_ID), draw(_ID))]))
            ann = draw(st.sampled_from(["", " -> %s" % draw(_ID)]))
            head = "%s%sdef %s(%s)%s:" % (pad, "async " if kind == "async" else "", name, params, ann)
            if kind == "oneline":
                lines.append(head + " return %s" % draw(_expr(depth)))
            else:
                if draw(st.booleans()):
                    head_lines = [head]
                else:   # header spread over several lines
                    head_lines = ["%s%sdef %s(" % (pad, "async " if kind == "async" else "", name),
                                  "%s        %s" % (pad, params), "%s)%s:" % (pad, ann)]
                lines.extend(head_lines)
                if draw(st.booleans()):
                    lines.append('%s    """doc %s"""' % (pad, draw(_ID)))
                lines.extend(draw(_block(depth + 1, indent + 4)))
        elif kind == "class":
            if draw(st.booleans()):
                lines.append("%s@%s" % (pad, draw(_ID)))
            bases = draw(st.sampled_from(["", "(%s)" % draw(_ID), "(%s, metaclass=%s)" % (draw(_ID), draw(_ID))]))
            lines.append("%sclass %s%s:" % (pad, name.capitalize(), bases))
            lines.extend(draw(_block(depth + 1, indent + 4, in_class=True)))
        else:
            head = {"if": "if %s:" % draw(_ID), "for": "for %s in %s:" % (draw(_ID), draw(_ID)),
                    "with": "with %s as %s:" % (draw(_ID), draw(_ID)), "try": "try:"}[kind]
            lines.append(pad + head)
            lines.extend(draw(_block(depth + 1, indent + 4, in_class)))
            if kind == "try":
                lines.append("%sexcept %s as %s:" % (pad, draw(_ID), draw(_ID)))
                lines.append("%s    %s = %s" % (pad, draw(_ID), draw(_expr(depth))))
    return lines


@st.composite
def cases(draw):
    if draw(st.integers(0, 9)) < 4:
        name, text, applied = draw(corpus.valid_sources())
        kind = "corpus"
    else:
        text = "\n".join(draw(_block(0, 0))) + "\n"
        text, applied = draw(corpus.mutate(text, kinds=["none", "none", "crlf", "cr", "tabs", "formfeed", "strip_final_nl"]))
        name, kind = "generated", "generated"
    pkgs = draw(st.lists(st.sampled_from(["pkg", "sub", "core_lib", "ünï"]), min_size=0, max_size=2, unique=True))
    mod = draw(st.sampled_from(["mod", "widget", "__init__", "tëst"]))
    if mod == "__init__" and not pkgs:
        mod = "mod"
    return {"origin": name, "kind": kind, "mut": [a for a in applied if a != "none"], "text": text, "pkgs": pkgs, "mod": mod,
            "offset": draw(st.integers(0, 1000))}


# ---------------------------------------------------------------------------- oracle helpers
def _regions(text):
    """Lambda / comprehension regions (start, end) from ast, for classification and the lambda allowance."""
    src = pyfront.lf(text)
    lines = src.split("\n")
    lam, comp, params = [], [], {}
    tree = ast.parse(src)
    for node in ast.walk(tree):
        if isinstance(node, (ast.Lambda, ast.ListComp, ast.SetComp, ast.DictComp, ast.GeneratorExp)):
            rng = ((node.lineno, pyfront._char_col(lines, node.lineno, node.col_offset)),
                   (node.end_lineno, pyfront._char_col(lines, node.end_lineno, node.end_col_offset)))
            (lam if isinstance(node, ast.Lambda) else comp).append(rng)
        if isinstance(node, (ast.FunctionDef, ast.AsyncFunctionDef)):
            a = node.args
            for arg in a.posonlyargs + a.args + a.kwonlyargs + ([a.vararg] if a.vararg else []) + ([a.kwarg] if a.kwarg else []):
                params[(arg.lineno, pyfront._char_col(lines, arg.lineno, arg.col_offset))] = (node.lineno, node.name)
    return lam, comp, params


def _ctx_key(c):
    return (c.type, unicodedata.normalize("NFKC", c.name), c.line)


def run_case(ctx, case):
    jedi = boot.jedi_boot()
    text = case["text"]
    if not corpus.is_compilable(text):
        ctx.discard("not compilable after mutation")
        return
    try:
        scopes = pyfront.scope_chain_map(text)
        toks = pyfront.tokens(text)
        lam, comp, params = _regions(text)
        ranges = pyfront.definition_ranges(text)
    except Exception as e:
        ctx.discard("oracle front end failed: " + type(e).__name__)
        return
    root = boot.fresh_dir("c18")
    d = root
    for p in case["pkgs"]:
        d = d / p
        d.mkdir()
        (d / "__init__.py").write_text("")
    path = d / (case["mod"] + ".py")
    path.write_text(text, encoding="utf-8", newline="")
    dotted = ".".join(case["pkgs"] + ([] if case["mod"] == "__init__" else [case["mod"]]))
    devs = []
    feats = set()
    with core.time_limit(150):
        s = boot.fresh_script(text, path=str(path), project=jedi.Project(str(root), sys_path=None))
        if s.get_syntax_errors():
            ctx.discard("parso reports a syntax error")
            return
        ctx.count()
        # name line of each def: the def-name token
        name_tok = {}
        nt = [t for t in toks if t.type == tokenize.NAME]
        for i, t in enumerate(nt[:-1]):
            if t.string in ("def", "class"):
                name_tok[(t.start[0], unicodedata.normalize("NFKC", nt[i + 1].string))] = nt[i + 1].start
        for sc in scopes:
            # ast.lineno of a def is the line of 'def'/'async'; the name token may be on the same line
            sc["name_pos"] = name_tok.get((sc["start"][0], sc["name"]))
        scopes_ok = [sc for sc in scopes if sc["name_pos"]]

        def key_of(sc):
            return (sc["kind"], sc["name"], sc["name_pos"][0])

        def find(chain_kind_name, upto):
            return None

        def innermost(pos):
            """(body_scope, header_scope): innermost scope whose body contains pos; innermost whose header/decorators do."""
            body = header = deco = None
            for sc in scopes_ok:
                st_ = sc["deco_start"] or sc["start"]
                if st_ <= pos < sc["end"] or pos == sc["end"]:
                    if pos >= sc["body_start"]:
                        if body is None or sc["start"] > body["start"]:
                            body = sc
                    elif pos >= sc["start"]:
                        if header is None or sc["start"] > header["start"]:
                            header = sc
                    else:
                        if deco is None or sc["start"] > deco["start"]:
                            deco = sc
            return body, header, deco

        def in_any(regs, pos):
            return any(a <= pos < b for a, b in regs)

        idents = [(t.start, t.string) for t in toks if t.type == tokenize.NAME]
        step = max(1, len(idents) // 120)
        judged = 0
        for pos, string in idents[case["offset"] % step::step]:
            body, header, deco = innermost(pos)
            # a header/decorator only matters if it is nested deeper than the body scope
            hd = header if header and (body is None or header["start"] > body["start"]) else None
            dc = deco if deco and (body is None or deco["start"] > body["start"]) and (hd is None or deco["start"] > hd["start"]) else None
            expect_body = key_of(body) if body else ("module", None, None)
            c = s.get_context(pos[0], pos[1])
            got = _ctx_key(c)
            if got[0] == "module":
                got = ("module", None, None)
            inside_lambda = in_any(lam, pos)
            where = "%r at %s -> %s(%s) line %s" % (string, pos, c.name, c.type, c.line)
            depth = (len(body["chain"]) + 1) if body else 0
            if hd is not None:
                enclosing = expect_body
                ok = got in (key_of(hd), enclosing)
                if dc is not None:
                    ok = ok or got == key_of(dc)
                if not ok and pos[1] <= hd["start"][1]:
                    devs.append(("get_context-column-not-right-of-def-column", where + " (header continuation line)"))
                elif not ok:
                    devs.append(("get_context-header", where + " expected %s or %s" % (key_of(hd), enclosing)))
                continue
            if dc is not None:
                if got != expect_body:
                    devs.append(("get_context-decorator", where + " expected enclosing %s" % (expect_body,)))
                continue
            judged += 1
            if depth >= 2 or inside_lambda or in_any(comp, pos) or (body and (body["async"] or body["decorated"])):
                feats.add("deep" if depth >= 2 else "special")
            if got == expect_body:
                continue
            if inside_lambda and c.type == "function" and c.name == "<lambda>":
                continue
            shape = "body"
            if inside_lambda:
                shape = "inside-lambda" + ("-in-class-body" if body and body["kind"] == "class" else "")
            elif body and pos[1] <= body["start"][1]:
                # continuation / bracket line that starts at or left of the column of the enclosing def/class keyword
                shape = "column-not-right-of-def-column"
            devs.append(("get_context-" + shape, where + " expected %s" % (expect_body,)))
        # get_context is a function of (text, position): a column sweep on the ONE Script above (an editor asking on every
        # cursor movement) must give, position by position, what a Script that was asked nothing else gives. Swept: every
        # column of some def/class/async keywords and '@' (header positions, whose answer the oracle above leaves open),
        # and the columns 0..indentation+4 of some blank and comment-only lines.
        sweep = []
        kw = [t for t in toks if t.type == tokenize.NAME and t.string in ("def", "class", "async") or t.type == tokenize.OP and t.string == "@"]
        for t in kw[case["offset"] % 3::3][:8]:
            sweep += [(t.start[0], cc) for cc in range(t.start[1], t.end[1] + 1)]
        src_lines = text.split("\n")
        quiet = [i + 1 for i, ln in enumerate(src_lines) if (not ln.strip() or ln.lstrip().startswith("#")) and "\r" not in ln and "\x0c" not in ln]
        code_lines_ = {t.start[0] for t in toks if t.type not in (tokenize.COMMENT, tokenize.NL, tokenize.NEWLINE, tokenize.INDENT, tokenize.DEDENT)} | \
            {ln_ for t in toks if t.type == tokenize.STRING for ln_ in range(t.start[0], t.end[0] + 1)}
        quiet = [ln_ for ln_ in quiet if ln_ not in code_lines_]
        for ln_ in quiet[case["offset"] % 4::4][:6]:
            width = len(src_lines[ln_ - 1])
            prev_ind = max([len(l_) - len(l_.lstrip()) for l_ in src_lines[max(0, ln_ - 6):ln_ - 1] if l_.strip()] or [0])
            sweep += [(ln_, cc) for cc in range(min(width, prev_ind + 4), -1, -4) if cc <= width]
        for pos in sweep:
            try:
                shared = _ctx_key(s.get_context(pos[0], pos[1]))
                alone = _ctx_key(boot.fresh_script(text, path=str(path), project=jedi.Project(str(root), sys_path=None)).get_context(pos[0], pos[1]))
            except ValueError:
                continue
            ctx.cls("sweep-position")
            if shared != alone:
                devs.append(("get_context-depends-on-earlier-queries", "at %s: Script with earlier get_context calls -> %s, Script asked nothing else -> %s" % (pos, shared, alone)))
                break
        # parent() chains and full_name of definitions
        modname = s.get_context(1, 0).name if text.strip() else None
        # definitions come from get_names and from goto at attribute accesses (definitions reached through a value,
        # e.g. self.x assigned in a closure of a method, are built on another code path than tree names)
        defs = [("get_names", n) for n in s.get_names(all_scopes=True, definitions=True)]
        attr_uses = [toks[i + 1].start for i in range(len(toks) - 1)
                     if toks[i].string == "." and toks[i].type == tokenize.OP and toks[i + 1].type == tokenize.NAME]
        seen_goto = set()
        for apos in attr_uses[case["offset"] % max(1, len(attr_uses) // 30 or 1)::max(1, len(attr_uses) // 30)][:40]:
            try:
                res = s.goto(apos[0], apos[1])
            except Exception:
                continue          # C01's subject
            for n in res:
                if n.module_path is not None and str(n.module_path) == str(path) and n.line is not None \
                        and (n.line, n.column) not in seen_goto:
                    seen_goto.add((n.line, n.column))
                    defs.append(("goto", n))
                    ctx.extra["goto_definitions_judged"] = ctx.extra.get("goto_definitions_judged", 0) + 1
        for origin, n in defs:
            pos = (n.line, n.column)
            chain = []
            p = n
            for _ in range(30):
                p = p.parent()
                if p is None:
                    break
                chain.append((p.type, unicodedata.normalize("NFKC", p.name)))
            own = [sc for sc in scopes_ok if sc["name_pos"] == pos]
            if own:
                exp = [(k, nm) for k, nm in reversed(own[0]["chain"])]
            elif pos in params:
                fl, fn = params[pos]
                f = [sc for sc in scopes_ok if sc["start"][0] == fl and sc["name"] == fn]
                if not f:
                    continue
                exp = [(f[0]["kind"], f[0]["name"])] + [(k, nm) for k, nm in reversed(f[0]["chain"])]
            else:
                body, header, deco = innermost(pos)
                hd = header if header and (body is None or header["start"] > body["start"]) else None
                if hd is not None or (deco and (body is None or deco["start"] > body["start"])):
                    continue          # walrus & co. in headers: not judged
                exp = ([(body["kind"], body["name"])] + [(k, nm) for k, nm in reversed(body["chain"])]) if body else []
            if not chain or chain[-1][0] != "module":
                devs.append(("parent-chain-does-not-end-at-module", "%r at %s chain=%s" % (n.name, pos, chain)))
                continue
            # lambdas are functions too: a chain may or may not visit them (jedi skips the lambda for its own
            # parameters and visits it for names nested deeper); both readings of "enclosing functions" are accepted
            if [c_ for c_ in chain[:-1] if c_ != ("function", "<lambda>")] != exp:
                b_ = innermost(pos)[0]
                shape = "-inside-lambda-in-class-body" if in_any(lam, pos) and b_ and b_["kind"] == "class" else ""
                if origin == "goto" and n.type == "instance" and exp and exp[0][0] == "class" and not own:
                    shape += ":class-level-name-reported-as-instance"      # enum members
                elif origin == "goto":
                    shape += ":reached-by-goto"
                    if own or pos in params:
                        pass
                    elif innermost(pos)[0] is not None and text.split("\n")[pos[0] - 1][:pos[1]].rstrip().endswith("."):
                        shape += ":attribute-of-self"
                devs.append(("parent-chain" + shape, "%r at %s chain=%s expected=%s" % (n.name, pos, chain[:-1], exp)))
            # full_name for module/class level def/class and direct assignment targets
            if in_any(lam, pos) or in_any(comp, pos):
                continue
            if origin == "goto":
                continue
            if all(k == "class" for k, _ in exp) and (own or (pos in ranges and n.type == "statement")) and dotted:
                want = ".".join([dotted] + [nm for _, nm in reversed(exp)] + [n.name])
                if n.full_name != want:
                    devs.append(("full_name", "%r at %s full_name=%r expected=%r" % (n.name, pos, n.full_name, want)))
                ctx.extra["full_names_compared"] = ctx.extra.get("full_names_compared", 0) + 1
    for sig, detail in devs:
        ctx.judge(sig, detail, case)
    ctx.extra["context_positions_judged"] = ctx.extra.get("context_positions_judged", 0) + judged
    ctx.cls("kind:" + case["kind"], "pkgdepth:%d" % len(case["pkgs"]))
    for f in feats:
        ctx.cls(f)
    if any(sc["async"] for sc in scopes):
        ctx.cls("has-async")
    if lam:
        ctx.cls("has-lambda")
    if feats:
        ctx.nontriv([text, case["pkgs"], case["mod"]])
    ctx.sample({"origin": case["origin"], "module": dotted, "mutators": case["mut"], "scopes": len(scopes),
                "positions_judged": judged, "text_head": text[:400]})


def shard(ctx):
    core.drive(ctx, cases(), lambda c: run_case(ctx, c), EXAMPLES[ctx.tier])


def replay(ctx, case):
    run_case(ctx, case)
