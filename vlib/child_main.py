"""Helper-process entry used by C14 for the faults that have to happen *inside* the helper (reply cut half-way,
helper dying after reading a request, helper exiting with a traceback).  It sets up imports exactly like jedi's own
subprocess/__main__.py and then runs the repository's unmodified Listener().listen(); only sys.stdout is wrapped.

Plan (environment variable VERIF_C14_PLAN, consumed by the first helper that starts with it):  "<phase>:<k>"
  truncate:<k>   the k-th reply is written only half and the process exits
  exit:<k>       the process exits (os._exit(1)) after reading the k-th request, before replying
  raise:<k>      an exception escapes the listener loop at the k-th reply (traceback on stderr, process ends)
"""
import os
import sys
from importlib.abc import MetaPathFinder
from importlib.machinery import PathFinder

_paths = {'jedi': os.environ['VERIF_C14_JEDI_PARENT'], 'parso': sys.argv[1]}


class _ExactImporter(MetaPathFinder):
    def find_spec(self, fullname, path=None, target=None):
        if path is None and fullname in _paths:
            return PathFinder.find_spec(fullname, path=[_paths[fullname]], target=target)
        return None


sys.meta_path.insert(0, _ExactImporter())
from jedi.inference.compiled import subprocess  # noqa: E402
from jedi.inference.compiled.subprocess import functions  # noqa: E402
sys.meta_path.pop(0)

plan = os.environ.get('VERIF_C14_PLAN', '')
phase, _, k = plan.partition(':')
k = int(k or 0)

listener = subprocess.Listener()


def _vp_state_count(*args):
    return len(listener._inference_states)


functions._vp_state_count = _vp_state_count


class _Buffer:
    def __init__(self, real):
        self._real = real
        self._pending = b''
        self.replies = 0

    def write(self, data):
        self._pending += bytes(data)
        return len(data)

    def flush(self):
        data, self._pending = self._pending, b''
        if not data:
            return
        self.replies += 1
        if phase == 'truncate' and self.replies == k:
            self._real.write(data[:max(1, len(data) // 2)])
            self._real.flush()
            os._exit(1)
        if phase == 'raise' and self.replies == k:
            raise RuntimeError('C14 injected failure inside the helper')
        self._real.write(data)
        self._real.flush()


class _Stdout:
    def __init__(self, real):
        self.buffer = _Buffer(real.buffer)


if phase in ('truncate', 'raise'):
    sys.stdout = _Stdout(sys.stdout)
elif phase == 'exit':
    _orig_run = listener._run
    _n = [0]

    def _run(*a, **kw):
        _n[0] += 1
        if _n[0] == k:
            os._exit(1)
        return _orig_run(*a, **kw)
    listener._run = _run

listener.listen()
