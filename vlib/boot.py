"""Process bootstrap shared by every check process (runner, shard worker, reference worker).

* puts /repo (the working tree under test) first on sys.path, never a site-packages jedi
* unpacks the vendored typeshed / corpus into /verif/.work (idempotent, lock-protected)
* points jedi at the vendored typeshed from the outside (no repo change)
* gives the process its own parso/jedi cache directory
* scrubs environment variables that make jedi discover interpreters
"""
import os
import sys
import fcntl
import tarfile
import tempfile
import shutil
import atexit
from pathlib import Path

VERIF = Path(__file__).resolve().parent.parent
REPO = Path(os.environ.get("VERIF_REPO", "/repo"))
WORK = VERIF / ".work"
TYPESHED = WORK / "typeshed"
CORPUS = WORK / "corpus"
PY = "/venv/bin/python"

os.environ.setdefault("PYTHONHASHSEED", "0")
os.environ["PYTHONDONTWRITEBYTECODE"] = "1"
sys.dont_write_bytecode = True
for _k in ("VIRTUAL_ENV", "CONDA_PREFIX", "PYTHONSTARTUP", "DJANGO_SETTINGS_MODULE", "PYTHONPATH"):
    os.environ.pop(_k, None)


def install_arena_shim():
    """Performance only (see vlib/native/arena_shim.c); silently skipped when it cannot be built."""
    if os.environ.get("VERIF_NO_SHIM"):
        return False
    so = WORK / "arena_shim.so"
    try:
        if not so.exists():
            import subprocess
            import sysconfig
            WORK.mkdir(exist_ok=True)
            src = VERIF / "vlib" / "native" / "arena_shim.c"
            tmp = WORK / ("arena_shim.%d.so" % os.getpid())
            for cc in ("gcc", "clang", "cc"):
                r = subprocess.run([cc, "-O2", "-shared", "-fPIC", "-I" + sysconfig.get_paths()["include"],
                                    str(src), "-o", str(tmp)], stdout=subprocess.DEVNULL, stderr=subprocess.DEVNULL)
                if r.returncode == 0:
                    os.replace(tmp, so)
                    break
            else:
                return False
        import ctypes
        ctypes.PyDLL(str(so)).install()
        return True
    except Exception:
        return False


def _unpack(tarball, dest, marker):
    if (dest / marker).exists():
        return
    WORK.mkdir(exist_ok=True)
    with open(WORK / ".lock", "w") as lk:
        fcntl.flock(lk, fcntl.LOCK_EX)
        if (dest / marker).exists():
            return
        tmp = Path(tempfile.mkdtemp(dir=WORK))
        with tarfile.open(tarball) as tf:
            tf.extractall(tmp)
        (tmp / marker).write_text("ok")
        if dest.exists():
            shutil.rmtree(dest)
        os.rename(tmp, dest)


def ensure_data():
    _unpack(VERIF / "vendor" / "typeshed-stdlib.tar.gz", TYPESHED, ".unpacked")
    _unpack(VERIF / "vendor" / "corpus.tar.gz", CORPUS, ".unpacked")


_tmp_root = None


def tmp_root():
    """Per-process scratch root (removed at exit). Honour VERIF_TMP given by the runner."""
    global _tmp_root
    if _tmp_root is None:
        base = os.environ.get("VERIF_TMP")
        if base:
            _tmp_root = Path(base)
            _tmp_root.mkdir(parents=True, exist_ok=True)
        else:
            _tmp_root = Path(tempfile.mkdtemp(prefix="verif-"))
            atexit.register(shutil.rmtree, str(_tmp_root), True)
    return _tmp_root


def fresh_dir(prefix="d"):
    return Path(tempfile.mkdtemp(prefix=prefix + "-", dir=tmp_root()))


_jedi = None


def jedi_boot(cache_dir=None):
    """Import jedi from /repo and configure it. Returns the jedi module."""
    global _jedi
    if _jedi is not None:
        return _jedi
    install_arena_shim()
    ensure_data()
    if str(REPO) in sys.path:
        sys.path.remove(str(REPO))
    sys.path.insert(0, str(REPO))
    import jedi
    assert Path(jedi.__file__).resolve().parent.parent == REPO.resolve(), jedi.__file__
    import jedi.inference.gradual.typeshed as ts
    import jedi.inference.gradual.utils as tu
    ts.TYPESHED_PATH = tu.TYPESHED_PATH = TYPESHED
    ts._version_cache.clear()
    if cache_dir is None:
        cache_dir = tmp_root() / "jedi-cache"
    jedi.settings.cache_directory = str(cache_dir)
    os.chdir(str(fresh_dir("cwd")))
    _jedi = jedi
    return jedi


def run_refworker(jobs, hashseed="0", junk=0, cache_dir=None, timeout=300):
    """Answer `jobs` in a fresh interpreter (see vlib/refworker.py). Returns {job id: answers} or None."""
    import json
    import subprocess
    d = fresh_dir("ref")
    spec, out = d / "spec.json", d / "out.json"
    spec.write_text(json.dumps({"junk": junk, "cache_dir": str(cache_dir) if cache_dir else str(d / "cache"), "jobs": jobs}))
    env = dict(os.environ)
    env.update({"PYTHONHASHSEED": str(hashseed), "VERIF_TMP": str(d / "tmp"), "PYTHONDONTWRITEBYTECODE": "1"})
    env.pop("PYTHONPATH", None)
    try:
        subprocess.run([PY, "-m", "vlib.refworker", str(spec), str(out)], cwd=str(VERIF), env=env, timeout=timeout,
                       stdout=subprocess.DEVNULL, stderr=subprocess.DEVNULL)
    except subprocess.TimeoutExpired:
        return None
    if not out.exists():
        return None
    return json.loads(out.read_text())


def reset_caches():
    """Forget in-memory parser trees and time caches (start of a generated case)."""
    import parso.cache
    import jedi.cache
    parso.cache.parser_cache.clear()
    jedi.cache.clear_time_caches(True)


def forget_path(path):
    """Drop the in-memory parser-cache entry of one path (so the next Script for it parses from scratch
    instead of diff-parsing against an unrelated earlier text)."""
    import parso.cache
    for per_grammar in parso.cache.parser_cache.values():
        if path is None:
            per_grammar.pop(None, None)     # all path-less Scripts share this slot (and diff-parse against it)
            continue
        per_grammar.pop(str(path), None)
        try:
            from pathlib import Path
            per_grammar.pop(Path(path), None)
        except Exception:
            pass


def fresh_script(code, path=None, **kw):
    """jedi.Script without editing history: the parser-cache slot of `path` (None included) is dropped first, so
    the text is parsed from scratch instead of diff-parsed against whatever the previous case left there.
    (History dependence is the subject of C08/C16 only.)"""
    forget_path(path)
    return jedi_boot().Script(code, path=path, **kw)
