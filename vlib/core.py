"""Shard context: counters, violation protocol, Hypothesis driver, time limits."""
import os
import sys
import json
import time
import signal
import hashlib
import traceback
from collections import Counter
from contextlib import contextmanager


class Inconclusive(Exception):
    """Raised when a single call exceeds its watchdog. Never a violation (except where a check says so)."""


class Violation(Exception):
    def __init__(self, sig, detail, case):
        super().__init__("%s: %s" % (sig, str(detail)[:300]))
        self.sig = sig
        self.detail = detail
        self.case = case


@contextmanager
def time_limit(seconds):
    def handler(signum, frame):
        raise Inconclusive("call exceeded %ss" % seconds)
    old = signal.signal(signal.SIGALRM, handler)
    signal.setitimer(signal.ITIMER_REAL, seconds)
    try:
        yield
    finally:
        signal.setitimer(signal.ITIMER_REAL, 0)
        signal.signal(signal.SIGALRM, old)


def canon(obj):
    return json.dumps(obj, sort_keys=True, ensure_ascii=True, default=str)


def h(obj):
    return hashlib.sha1(canon(obj).encode()).hexdigest()[:16]


class Ctx:
    def __init__(self, pid, seed, shard, nshards, tier, known_sigs=(), budget=150):
        self.pid = pid
        self.seed = seed
        self.shard = shard
        self.nshards = nshards
        self.tier = tier
        self.known_sigs = set(known_sigs)
        self.ignore_sigs = set()     # root causes already recorded in this run
        self.t0 = time.time()
        self.budget = budget
        self.evaluations = 0
        self.nontrivial = set()
        self.classes = Counter()
        self.known_hits = Counter()
        self.discarded = Counter()
        self.inconclusive = 0
        self.samples = []
        self.violations = []
        self.harness_errors = []
        self.extra = {}
        self.replaying = False

    # ---- bookkeeping
    def out_of_time(self, frac=1.0):
        return time.time() - self.t0 > self.budget * frac

    def count(self, n=1):
        self.evaluations += n

    def nontriv(self, key):
        self.nontrivial.add(h(key))

    def cls(self, *names):
        for n in names:
            self.classes[n] += 1

    def discard(self, why):
        self.discarded[why] += 1

    def sample(self, obj, limit=3):
        if len(self.samples) < limit:
            self.samples.append(obj)

    def hyp_seed(self, salt=0):
        return (self.seed * 1000003 + self.shard * 7919 + salt) % (2 ** 31)

    # ---- violation protocol
    def judge(self, sig, detail, case):
        """Call for every deviation observed. Known signatures are counted, new ones raise."""
        if sig in self.known_sigs:
            self.known_hits[sig] += 1
            return
        if self.replaying:
            self.violations.append({"sig": sig, "detail": detail, "case": case})
            return
        if sig in self.ignore_sigs:
            return
        raise Violation(sig, detail, case)

    def result(self):
        return {
            "evaluations": self.evaluations,
            "nontrivial": sorted(self.nontrivial),
            "classes": dict(self.classes),
            "known_hits": dict(self.known_hits),
            "discarded": dict(self.discarded),
            "inconclusive": self.inconclusive,
            "samples": self.samples,
            "violations": self.violations,
            "harness_errors": self.harness_errors,
            "extra": self.extra,
        }


def drive(ctx, strategy, body, max_examples, salt=0, shrink=None, max_roots=4, stateful=None):
    """Run `body(case)` over `strategy` under Hypothesis with the shard's seed.

    body raises Violation (through ctx.judge) for an unlisted deviation; the minimal failing case
    Hypothesis ends on is recorded, its signature is put on the run-local ignore list and the
    search is restarted so that one shallow defect does not hide what lies behind it.
    """
    import hypothesis
    from hypothesis import given, settings, HealthCheck, Phase
    if shrink is None:
        shrink = ctx.tier == "thorough"
    phases = [Phase.explicit, Phase.generate] + ([Phase.shrink] if shrink else [])
    remaining = max_examples
    for attempt in range(max_roots):
        if remaining <= 0 or ctx.out_of_time():
            break
        last = {}
        done = [0]

        def wrapped(case):
            if ctx.out_of_time():
                return
            done[0] += 1
            try:
                body(case)
            except Violation as v:
                last["v"] = v
                raise
            except Inconclusive:
                ctx.inconclusive += 1
            except Exception as e:
                # an exception that escaped from inside jedi while a check was asking it something is a crash of the
                # code under test: C01's subject.  It is counted here and the case is abandoned; anything else is a
                # harness error and propagates.
                tb = traceback.extract_tb(e.__traceback__)
                if getattr(ctx, "own_crashes", False) or not tb or "/jedi/" not in tb[-1].filename.replace("\\", "/") \
                        and not any("/jedi/" in f.filename and "/verif/" not in f.filename for f in tb[-3:]):
                    raise
                ctx.classes["not-judged:jedi-internal-exception(C01):" + type(e).__name__] += 1

        st = settings(max_examples=remaining, deadline=None, database=None, derandomize=False,
                      report_multiple_bugs=False, suppress_health_check=list(HealthCheck),
                      phases=phases, print_blob=False)
        test = hypothesis.seed(ctx.hyp_seed(salt + attempt * 101))(st(given(strategy)(wrapped)))
        try:
            test()
            break
        except Violation:
            v = last["v"]
        except Exception as e:   # hypothesis wraps in some cases (Flaky etc.)
            v = last.get("v")
            if v is None:
                ctx.harness_errors.append("driver: %s: %s\n%s" % (type(e).__name__, str(e)[:300],
                                          "".join(traceback.format_tb(e.__traceback__)[-6:])[-1800:]))
                break
        ctx.violations.append({"sig": v.sig, "detail": v.detail, "case": v.case})
        ctx.ignore_sigs.add(v.sig)
        remaining -= done[0]


def drive_machine(ctx, machine_cls, max_examples, steps, salt=0, shrink=None, max_roots=3):
    """Same protocol for RuleBasedStateMachine classes. The machine records ctx/judge itself."""
    import hypothesis
    from hypothesis import settings, HealthCheck, Phase
    from hypothesis.stateful import run_state_machine_as_test
    if shrink is None:
        shrink = ctx.tier == "thorough"
    phases = [Phase.explicit, Phase.generate] + ([Phase.shrink] if shrink else [])
    for attempt in range(max_roots):
        if ctx.out_of_time():
            break
        st = settings(max_examples=max_examples, stateful_step_count=steps, deadline=None, database=None,
                      derandomize=False, report_multiple_bugs=False, suppress_health_check=list(HealthCheck),
                      phases=phases, print_blob=False)
        machine_cls.last_violation = None
        try:
            run_state_machine_as_test(hypothesis.seed(ctx.hyp_seed(salt + attempt * 101))(machine_cls), settings=st)
            break
        except Violation as v:
            pass
        except Exception as e:
            v = machine_cls.last_violation
            if v is None:
                ctx.harness_errors.append("machine driver: " + "".join(traceback.format_exception(type(e), e, e.__traceback__))[-2500:])
                break
        v = machine_cls.last_violation or v
        ctx.violations.append({"sig": v.sig, "detail": v.detail, "case": v.case})
        ctx.ignore_sigs.add(v.sig)
