"""Reference worker: a fresh process that answers queries for given texts and has never seen anything else.

usage: python -m vlib.refworker SPEC.json OUT.json      (cwd=/verif)
SPEC = {"junk": N, "cache_dir": path|None, "jobs": [{"id":..., "text":..., "path": str|None, "project": str|None,
         "files": {rel: text}|None, "queries": [[method, line, col], ...]}]}
"""
import sys
import json
import os


def main():
    spec = json.load(open(sys.argv[1]))
    junk = [object() for _ in range(int(spec.get("junk", 0)))]      # perturb heap layout / object addresses
    junk2 = {str(i): [i] for i in range(int(spec.get("junk", 0)) // 10)}
    from vlib import boot, api
    jedi = boot.jedi_boot(cache_dir=spec.get("cache_dir"))
    out = {}
    for job in spec["jobs"]:
        project = jedi.Project(job["project"]) if job.get("project") else None
        answers = []
        for method, line, col in job["queries"]:
            try:
                s = jedi.Script(job["text"], path=job.get("path"), project=project)
                if method in ("get_names",):
                    res = s.get_names(all_scopes=True, definitions=True, references=True)
                elif method == "goto_follow":
                    method = "goto"
                    res = s.goto(line, col, follow_imports=True)
                else:
                    res = getattr(s, method)(line, col)
                answers.append({"ok": api.ser_result(method, res)})
            except Exception as e:
                answers.append({"exc": type(e).__name__})
        out[job["id"]] = answers
    json.dump(out, open(sys.argv[2], "w"))
    sys.stdout.flush()
    os._exit(0)


if __name__ == "__main__":
    main()
