"""Tier runner: known-finding replays, committed replays, 16 shard workers, evidence, VIOLATION lines.

Exit codes: 0 held on everything explored; 1 at least one VIOLATION line; 2 harness error.
"""
import os
import sys
import json
import time
import shutil
import hashlib
import signal
import tempfile
import subprocess
import importlib
import traceback
from collections import Counter
from pathlib import Path

VERIF = Path(__file__).resolve().parent.parent
PY = "/venv/bin/python"
NSHARDS = int(os.environ.get("VERIF_SHARDS", "16"))


def load_known(pid):
    p = VERIF / "known_findings.json"
    if not p.exists():
        return []
    data = json.loads(p.read_text())
    return [f for f in data.get("findings", []) if f["property"] == pid]


def canon(obj):
    return json.dumps(obj, sort_keys=True, ensure_ascii=True, default=str)


def case_hash(obj):
    return hashlib.sha1(canon(obj).encode()).hexdigest()[:16]


def _worker_env(tmp, seed, tier):
    env = dict(os.environ)
    env["VERIF_TMP"] = str(tmp)
    env["VERIF_SEED"] = str(seed)
    env["VERIF_TIER"] = tier
    env["PYTHONHASHSEED"] = "0"
    env["PYTHONDONTWRITEBYTECODE"] = "1"
    env.pop("PYTHONPATH", None)   # workers run with cwd=/verif and -m; nothing of the harness leaks into jedi's environment
    for k in ("VIRTUAL_ENV", "CONDA_PREFIX", "PYTHONSTARTUP", "DJANGO_SETTINGS_MODULE"):
        env.pop(k, None)
    return env


def run_replay_subprocess(pid, case_file, tmp, seed, tier, timeout=600):
    """Re-execute one case alone in a fresh process. Returns list of violation dicts or None (harness trouble)."""
    out = Path(tmp) / ("replay-out-%s.json" % case_hash(str(case_file) + str(time.time()) + str(os.urandom(4))))
    wtmp = Path(tempfile.mkdtemp(prefix="rp-", dir=tmp))
    cmd = [PY, "-m", "vlib.worker", "replay", pid, str(case_file), str(out)]
    try:
        p = subprocess.run(cmd, cwd=str(VERIF), env=_worker_env(wtmp, seed, tier),
                           stdout=subprocess.PIPE, stderr=subprocess.STDOUT, timeout=timeout)
    except subprocess.TimeoutExpired:
        return None
    finally:
        shutil.rmtree(wtmp, ignore_errors=True)
    if not out.exists():
        sys.stderr.write("replay worker produced no output (rc=%s):\n%s\n" % (p.returncode, p.stdout.decode("utf8", "replace")[-3000:]))
        return None
    return json.loads(out.read_text())["violations"]


def main(argv=None):
    import argparse
    ap = argparse.ArgumentParser()
    ap.add_argument("pid")
    ap.add_argument("--tier", default=os.environ.get("VERIF_TIER", "quick"), choices=["quick", "thorough"])
    ap.add_argument("--replay", default=None)
    ap.add_argument("--shards", type=int, default=NSHARDS)
    args = ap.parse_args(argv)
    pid = args.pid.upper()
    try:
        seed = int(os.environ.get("VERIF_SEED", "1") or "1")
    except ValueError:
        seed = 1
    tier = args.tier
    t0 = time.time()
    sys.path.insert(0, str(VERIF))
    from vlib import boot
    try:
        boot.ensure_data()
    except Exception:
        traceback.print_exc()
        return 2
    mod = importlib.import_module("vlib.props." + pid.lower())
    tmp = Path(tempfile.mkdtemp(prefix="verif-%s-" % pid))

    def cleanup(*a):
        shutil.rmtree(tmp, ignore_errors=True)
        if a:
            os._exit(2)
    signal.signal(signal.SIGTERM, cleanup)
    try:
        return _main(pid, mod, seed, tier, args, tmp, t0)
    except KeyboardInterrupt:
        return 2
    except Exception:
        traceback.print_exc()
        return 2
    finally:
        # kill stray children of workers (own process groups are used by workers)
        shutil.rmtree(tmp, ignore_errors=True)


def _main(pid, mod, seed, tier, args, tmp, t0):
    if args.replay:
        viols = run_replay_subprocess(pid, Path(args.replay).resolve(), tmp, seed, tier)
        if viols is None:
            print("replay could not be executed")
            return 2
        if viols:
            for v in viols:
                print("  violated: %s :: %s" % (v.get("sig"), str(v.get("detail"))[:500]))
            print("VIOLATION property=%s replay=%s" % (pid, args.replay))
            return 1
        print("replay holds: %s" % args.replay)
        return 0

    known = load_known(pid)
    known_sigs = sorted({f["sig"] for f in known if f.get("status") == "known"})
    violations = []      # (sig, detail, case)
    known_lines = []
    harness_errors = []

    # 1. pinned reproducers of known / fixed findings and 2. committed replay files, replayed in parallel
    from concurrent.futures import ThreadPoolExecutor
    jobs = []
    for i, f in enumerate(known):
        if "case" not in f:
            continue
        cf = tmp / ("known-%d.json" % i)
        cf.write_text(json.dumps({"property": pid, "case": f["case"]}))
        jobs.append(("known", f, cf))
    rdir = VERIF / "replays" / pid
    committed = sorted(p for p in rdir.glob("*.json") if not p.name.startswith("new-")) if rdir.exists() else []
    for cf in committed:
        jobs.append(("committed", None, cf))
    pinned = sum(1 for j in jobs if j[0] == "known")
    with ThreadPoolExecutor(max_workers=min(16, max(1, len(jobs)))) as ex:
        outcomes = list(ex.map(lambda j: run_replay_subprocess(pid, j[2], tmp, seed, tier), jobs))
    for (kind, f, cf), viols in zip(jobs, outcomes):
        if viols is None:
            harness_errors.append("%s replay %s could not be run" % (kind, cf.name))
            continue
        if kind == "committed":
            for v in viols:
                if v["sig"] not in known_sigs:
                    violations.append((v["sig"], v.get("detail"), json.loads(cf.read_text())["case"]))
            continue
        same = [v for v in viols if v["sig"] == f["sig"]]
        other = [v for v in viols if v["sig"] != f["sig"] and v["sig"] not in known_sigs]
        if f.get("status") == "known":
            if same:
                known_lines.append("KNOWN-FINDING: property=%s %s [%s]" % (pid, f["what"], f["sig"]))
        else:  # fixed: a recurrence is a violation
            for v in same:
                violations.append((v["sig"], "recurrence of fixed finding: " + str(v.get("detail")), f["case"]))
        for v in other:
            violations.append((v["sig"], v.get("detail"), f["case"]))

    # 3. generated search, sharded
    nshards = args.shards
    procs = []
    budget = getattr(mod, "BUDGET", {"quick": 150, "thorough": 1800})[tier]
    hard_timeout = budget * 2.5 + 120
    for s in range(nshards):
        wtmp = tmp / ("w%02d" % s)
        wtmp.mkdir()
        out = tmp / ("shard-%02d.json" % s)
        log = open(tmp / ("shard-%02d.log" % s), "wb")
        cmd = [PY, "-m", "vlib.worker", "shard", pid, str(s), str(nshards), str(out)]
        p = subprocess.Popen(cmd, cwd=str(VERIF), env=_worker_env(wtmp, seed, tier), stdout=log,
                             stderr=subprocess.STDOUT, start_new_session=True)
        procs.append((s, p, out, log))
    deadline = time.time() + hard_timeout
    results = []
    killed = 0
    for s, p, out, log in procs:
        try:
            p.wait(timeout=max(1, deadline - time.time()))
        except subprocess.TimeoutExpired:
            killed += 1
        try:
            os.killpg(p.pid, signal.SIGKILL)   # the worker and anything it left behind
        except (ProcessLookupError, PermissionError):
            pass
        p.wait()
        log.close()
        if out.exists():
            try:
                results.append(json.loads(out.read_text()))
                continue
            except Exception:
                pass
        tail = (tmp / ("shard-%02d.log" % s)).read_bytes()[-2500:].decode("utf8", "replace")
        harness_errors.append("shard %d gave no result (rc=%s)\n%s" % (s, p.returncode, tail))

    # merge
    evaluations = sum(r["evaluations"] for r in results)
    nontrivial = set()
    classes = Counter()
    known_hits = Counter()
    discarded = Counter()
    inconclusive = 0
    samples = []
    extra = {}
    for r in results:
        nontrivial.update(r["nontrivial"])
        classes.update(r["classes"])
        known_hits.update(r["known_hits"])
        discarded.update(r["discarded"])
        inconclusive += r["inconclusive"]
        for sm in r["samples"]:
            if len(samples) < 10:
                samples.append(sm)
        for k, v in r.get("extra", {}).items():
            if isinstance(v, (int, float)):
                extra[k] = extra.get(k, 0) + v
            else:
                extra.setdefault(k, v)
        for v in r["violations"]:
            violations.append((v["sig"], v.get("detail"), v["case"]))
        for h in r.get("harness_errors", []):
            harness_errors.append(h)

    # 4. confirm each violation alone in a fresh process, write replay files
    reported = []
    unreproduced = 0
    seen = set()
    scratch = os.environ.get("VERIF_REPO", "/repo") != "/repo"    # sensitivity runs against a mutated copy
    outdir = (Path("/tmp/verif-mut") / "replays" / pid) if scratch else (VERIF / "replays" / pid)
    for sig, detail, case in violations:
        key = (sig, case_hash(case))
        if key in seen:
            continue
        seen.add(key)
        if any(sig == s for s, _ in reported) and len(reported) >= 1 and sum(1 for s, _ in reported if s == sig) >= 2:
            continue   # at most two replays per root-cause signature
        outdir.mkdir(parents=True, exist_ok=True)
        rp = outdir / ("new-%s.json" % case_hash([sig, case]))
        rp.write_text(json.dumps({"property": pid, "sig": sig, "detail": detail, "case": case}, indent=1, default=str))
        viols = run_replay_subprocess(pid, rp, tmp, seed, tier)
        if viols is None or not [v for v in viols if v["sig"] not in known_sigs]:
            unreproduced += 1
            keep = os.environ.get("VERIF_KEEP_UNREPRO")
            if keep:
                shutil.copy(rp, keep)
            rp.unlink()
            sys.stderr.write("note: a violation (%s) did not reproduce in a fresh process; not reported\n" % sig)
            continue
        reported.append((sig, rp))

    for line in known_lines:
        print(line)
    for sig, rp in reported:
        print("  violated: %s" % sig)
        try:
            print("  detail: %s" % str(json.loads(rp.read_text()).get("detail"))[:400].replace("\n", " | "))
        except Exception:
            pass
        print("VIOLATION property=%s replay=%s" % (pid, rp))

    ev = {
        "property_id": pid,
        "tier": tier,
        "seed": seed,
        "level": getattr(mod, "LEVEL", "exploration"),
        "coverage": {
            "evaluations": evaluations,
            "distinct_nontrivial": len(nontrivial),
            "rule": mod.RULE,
            "samples": samples,
            "classes": dict(sorted(classes.items())),
            "excluded_by_known_finding": dict(sorted(known_hits.items())),
            "discarded": dict(sorted(discarded.items())),
            "inconclusive": inconclusive + killed,
            "pinned_reproducers_replayed": pinned,
            "committed_replays_replayed": len(committed),
            "unreproduced_in_fresh_process": unreproduced,
            "shards": len(results),
            "exhaustive": bool(getattr(mod, "EXHAUSTIVE", {}).get(tier, False)) if isinstance(getattr(mod, "EXHAUSTIVE", None), dict) else False,
        },
        "assumptions": list(getattr(mod, "ASSUMPTIONS", [])),
        "wall_s": round(time.time() - t0, 1),
        "violations": len(reported),
    }
    ev["coverage"].update(extra)
    if extra.get("enumeration_cut_short_by_budget"):
        ev["coverage"]["exhaustive"] = False
    edir = (Path("/tmp/verif-mut") / "evidence") if scratch else (VERIF / "evidence")
    edir.mkdir(parents=True, exist_ok=True)
    (edir / ("%s.json" % pid)).write_text(json.dumps(ev, indent=1, default=str) + "\n")
    print("%s tier=%s seed=%d evaluations=%d distinct_nontrivial=%d known_hits=%d violations=%d wall=%.0fs" % (
        pid, tier, seed, evaluations, len(nontrivial), sum(known_hits.values()), len(reported), time.time() - t0))
    if reported:
        return 1
    if harness_errors:
        for h in harness_errors[:5]:
            sys.stderr.write("HARNESS ERROR: %s\n" % h)
        return 2
    if evaluations == 0 or len(nontrivial) < 2:
        sys.stderr.write("HARNESS ERROR: vacuous run (evaluations=%d, nontrivial=%d)\n" % (evaluations, len(nontrivial)))
        return 2
    return 0


if __name__ == "__main__":
    sys.exit(main())
