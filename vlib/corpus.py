"""G3: frozen corpus (vendor/corpus.tar.gz) + Hypothesis text mutators."""
import io
import re
import ast
import keyword
import tokenize
from functools import lru_cache
from hypothesis import strategies as st
from . import boot

PY_TOKENS = [
    "def ", "class ", "return ", "import ", "from ", " as ", "lambda ", "yield ", "async ", "await ", "with ",
    "for ", " in ", "if ", "else:", "elif ", "try:", "except ", "finally:", "while ", "global ", "nonlocal ",
    "(", ")", "[", "]", "{", "}", ":", ",", ".", "=", "==", "->", "*", "**", "@", "+", "-", "'", '"', '"""',
    "'''", "#", "\\", "\n", "\n    ", "\n        ", " ", "\t", "self", "x", "foo", "None", "True", "1", "0x", "f'",
    "f'{", "}", "...", ":=", "is ", "not ", "and ", "or ", "del ", "pass", "raise ", "assert ", "print", "str",
    "int", "list", "dict", "os", "sys", "\r\n", "\r", "\x0c", "﻿", "é", "ß", "变", "𝒳", "\x00", "b'", "r'",
]


@lru_cache(None)
def files():
    """[(relative name, text)] sorted; text decoded as utf-8 (files that do not decode are skipped)."""
    boot.ensure_data()
    out = []
    for p in sorted(boot.CORPUS.rglob("*.py")):
        try:
            t = p.read_bytes().decode("utf-8")
        except UnicodeDecodeError:
            continue
        if t.strip():
            out.append((str(p.relative_to(boot.CORPUS)), t))
    # hand-written idiom files: constructs that the anchored code special-cases (sys.version_info comparisons,
    # sys.path / __all__ manipulation, typing, dataclasses, enum, namedtuple, functools, ...)
    for p in sorted((boot.VERIF / "vendor" / "idioms").glob("*.py")):
        for _ in range(10):      # weight: ten entries each
            out.append(("idioms/" + p.name, p.read_text(encoding="utf-8")))
    return out


@lru_cache(None)
def valid_files():
    """Corpus files accepted by compile() (python3.12) — parso validity is checked by the users."""
    out = []
    for name, t in files():
        try:
            compile(t, name, "exec", dont_inherit=True)
        except (SyntaxError, ValueError):
            continue
        out.append((name, t))
    return out


def is_compilable(text):
    try:
        compile(text, "<gen>", "exec", dont_inherit=True)
        return True
    except (SyntaxError, ValueError, OverflowError, RecursionError, MemoryError):
        return False


def nesting_depth(text):
    d = m = 0
    for ch in text:
        if ch in "([{":
            d += 1
            m = max(m, d)
        elif ch in ")]}":
            d = max(0, d - 1)
    # indentation depth
    ind = max((len(l) - len(l.lstrip(" \t")) for l in text.split("\n")), default=0)
    return max(m, ind // 4)


@st.composite
def windows(draw, lo=5, hi=60, only_valid=False):
    fl = valid_files() if only_valid else files()
    name, text = draw(st.sampled_from(fl))
    lines = text.split("\n")
    n = draw(st.integers(lo, hi))
    if len(lines) <= n:
        return name, text
    start = draw(st.integers(0, len(lines) - n))
    return "%s@%d+%d" % (name, start, n), "\n".join(lines[start:start + n])


@st.composite
def whole_files(draw, only_valid=True, max_lines=400):
    fl = [f for f in (valid_files() if only_valid else files()) if f[1].count("\n") <= max_lines]
    return draw(st.sampled_from(fl))


def token_bounds(text):
    """Character offsets of token starts/ends as seen by a simple regex (works on broken code too)."""
    return [m.start() for m in re.finditer(r"\w+|[^\w\s]", text)] + [m.end() for m in re.finditer(r"\w+|[^\w\s]", text)]


NUMBER_FORMS = ["0", "1", "3.8", "0x3", "1e3", "3j", "0o7", "0b1", "1_000", "-1", "10**2", ".5", "1.", "0xFFFFFFFFFFFFFFFFFFFF"]
MUTATORS = ["none", "num_swap", "num_swap", "num_swap", "prefix_char", "prefix_token", "del_line", "dup_line", "swap_lines", "del_token", "ins_token",
            "indent", "dedent", "crlf", "cr", "mixed_eol", "tabs", "formfeed", "continuation", "strip_final_nl",
            "unicode_ident", "bom", "soup_insert", "del_char", "ins_char"]


@st.composite
def mutate(draw, text, kinds=None):
    """Return (mutated text, [mutator names])."""
    applied = []
    k = draw(st.integers(0, 3))
    for _ in range(k):
        m = draw(st.sampled_from(kinds or MUTATORS))
        lines = text.split("\n")
        if m == "none":
            pass
        elif m == "num_swap":
            nums = list(re.finditer(r"(?<![\w.])\d[\d_]*(?![\w.])", text))
            if nums:
                t = draw(st.sampled_from(nums))
                text = text[:t.start()] + draw(st.sampled_from(NUMBER_FORMS)) + text[t.end():]
        elif m == "prefix_char" and text:
            text = text[:draw(st.integers(0, len(text)))]
        elif m == "prefix_token" and text:
            b = sorted(set(token_bounds(text))) or [0]
            text = text[:draw(st.sampled_from(b))]
        elif m == "del_line" and len(lines) > 1:
            i = draw(st.integers(0, len(lines) - 1))
            del lines[i]
            text = "\n".join(lines)
        elif m == "dup_line":
            i = draw(st.integers(0, len(lines) - 1))
            lines.insert(i, lines[i])
            text = "\n".join(lines)
        elif m == "swap_lines" and len(lines) > 1:
            i = draw(st.integers(0, len(lines) - 2))
            lines[i], lines[i + 1] = lines[i + 1], lines[i]
            text = "\n".join(lines)
        elif m == "del_token" and text:
            ms = list(re.finditer(r"\w+|[^\w\s]", text))
            if ms:
                t = draw(st.sampled_from(ms))
                text = text[:t.start()] + text[t.end():]
        elif m == "ins_token":
            pos = draw(st.integers(0, len(text)))
            text = text[:pos] + draw(st.sampled_from(PY_TOKENS)) + text[pos:]
        elif m in ("indent", "dedent"):
            i = draw(st.integers(0, len(lines) - 1))
            j = min(len(lines), i + draw(st.integers(1, 6)))
            for q in range(i, j):
                if m == "indent":
                    lines[q] = "    " + lines[q]
                elif lines[q].startswith("    "):
                    lines[q] = lines[q][4:]
            text = "\n".join(lines)
        elif m == "crlf":
            text = text.replace("\r\n", "\n").replace("\n", "\r\n")
        elif m == "cr":
            text = text.replace("\r\n", "\n").replace("\n", "\r")
        elif m == "mixed_eol":
            parts = text.split("\n")
            eols = draw(st.lists(st.sampled_from(["\n", "\r\n", "\r"]), min_size=len(parts), max_size=len(parts)))
            text = "".join(p + e for p, e in zip(parts, eols))
        elif m == "tabs":
            text = text.replace("    ", "\t")
        elif m == "formfeed":
            # only in front of unindented lines: a form feed followed by indentation is ignored by CPython's indentation
            # count but counted as a column by parso's tokenizer, which then nests the line differently (a quirk of the
            # dependency, like the continuation case below; not a subject of these properties)
            # ... and only where the previous non-blank line is unindented as well: after an indented block parso takes
            # the form feed's column for a dedent to column 1 and keeps the line inside the block ('class A:\n\tpass\n\fx = 1'
            # is one Class node for parso), CPython dedents to the module
            def prev_flat(j):
                for q in range(j - 1, -1, -1):
                    if lines[q].strip():
                        return not lines[q][:1].isspace() and not lines[q].rstrip().endswith((":", "\\", "(", "[", "{", ","))
                return True
            cand = [j for j, l_ in enumerate(lines) if not l_[:1].isspace() and prev_flat(j)]
            i = draw(st.sampled_from(cand)) if cand else 0
            lines[i] = "\x0c" + lines[i]
            text = "\n".join(lines)
        elif m == "continuation" and text:
            # only spaces inside a line's code (a backslash-newline inside the *indentation* is measured differently by
            # parso's and CPython's tokenizers: a dependency quirk, not a subject of these properties)
            sp = [mm.start() for mm in re.finditer(r"(?<=[^\s\\]) (?=\S)", text)]
            if sp:
                p = draw(st.sampled_from(sp))
                text = text[:p] + " \\\n" + text[p + 1:]
        elif m == "strip_final_nl":
            text = text.rstrip("\r\n")
        elif m == "unicode_ident":
            ids = sorted(set(re.findall(r"\b[a-z_][a-z0-9_]{2,}\b", text)) - set(keyword.kwlist))
            if ids:
                old = draw(st.sampled_from(ids))
                # incl. characters whose case mappings change the length of the string ('ß'.upper() == 'SS',
                # 'ß'.casefold() == 'ss', 'İ'.lower() is two code points), at the start, in the middle and at the end
                new = draw(st.sampled_from(["é" + old, old + "ß", "变量", "𝒳" + old, "ﬁ" + old, old[:2] + "ß" + old[2:],
                                            "ß" + old, old[:1] + "İ" + old[1:], "Straße_" + old, old + "_größe"]))
                text = re.sub(r"\b%s\b" % re.escape(old), new, text)
        elif m == "bom":
            text = "﻿" + text
        elif m == "soup_insert":
            pos = draw(st.integers(0, len(text)))
            soup = "".join(draw(st.lists(st.sampled_from(PY_TOKENS), min_size=1, max_size=8)))
            text = text[:pos] + soup + text[pos:]
        elif m == "del_char" and text:
            p = draw(st.integers(0, len(text) - 1))
            text = text[:p] + text[p + 1:]
        elif m == "ins_char":
            p = draw(st.integers(0, len(text)))
            ch = draw(st.one_of(st.sampled_from(list("()[]{}:.,='\"#\\\n \t@*")),
                                st.characters(blacklist_categories=("Cs",))))
            text = text[:p] + ch + text[p:]
        else:
            continue
        applied.append(m)
    return text, applied


@st.composite
def soups(draw, max_tokens=60):
    toks = draw(st.lists(st.one_of(st.sampled_from(PY_TOKENS),
                                   st.text(st.characters(blacklist_categories=("Cs",)), max_size=3)),
                         min_size=0, max_size=max_tokens))
    return "".join(toks)


def split_lines(text):
    """Independent re-implementation of the line model jedi documents (parso.split_lines keepends=True):
    lines end at \\n, \\r\\n, \\r (and for historic reasons \\x0c/\\x1c.. are NOT line ends)."""
    out = re.split(r"(?<=\r\n)|(?<=\n)|(?<=\r)(?!\n)", text)
    # re.split leaves a last '' when text ends with a line end -> that is the (empty) last line
    return out


def in_range(text, line, column):
    """The documented position contract: 1 <= line <= number of lines; 0 <= column <= length of the line
    without its line end."""
    lines = split_lines(text)
    if not (1 <= line <= len(lines)):
        return False
    s = lines[line - 1]
    if s.endswith("\r\n"):
        s = s[:-2]
    elif s.endswith("\n") or s.endswith("\r"):
        s = s[:-1]
    return 0 <= column <= len(s)


# ---------------------------------------------------------------- valid sources (C04/C17/C18)
LAYOUT_MUTATORS = ["none", "none", "crlf", "cr", "mixed_eol", "formfeed", "continuation", "strip_final_nl",
                   "unicode_ident", "tabs", "dup_line"]


@lru_cache(None)
def _chunks(max_lines=90):
    """Top-level-statement-aligned chunks of the valid corpus files (each chunk compiles)."""
    out = []
    for name, text in valid_files():
        try:
            tree = ast.parse(text)
        except (SyntaxError, ValueError, RecursionError):
            continue
        lines = text.split("\n")
        if len(lines) <= max_lines:
            out.append((name, text))
            continue
        stmts = tree.body
        i = 0
        while i < len(stmts):
            first = stmts[i]
            start = min([first.lineno] + [d.lineno for d in getattr(first, "decorator_list", [])])
            j = i
            while j + 1 < len(stmts) and stmts[j + 1].end_lineno - start < max_lines:
                j += 1
            end = stmts[j].end_lineno
            chunk = "\n".join(lines[start - 1:end]) + "\n"
            if is_compilable(chunk):
                out.append(("%s@L%d-%d" % (name, start, end), chunk))
            i = j + 1
    return out


@st.composite
def valid_sources(draw, max_lines=90):
    name, text = draw(st.sampled_from(_chunks(max_lines)))
    text, applied = draw(mutate(text, kinds=LAYOUT_MUTATORS))
    return name, text, [a for a in applied if a != "none"]
