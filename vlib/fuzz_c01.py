"""C01, coverage-guided stage: atheris (libFuzzer) fuzz target over raw bytes.

    python -m vlib.fuzz_c01 OUTDIR CORPUS_MODE [libFuzzer flags]      (cwd=/verif, atheris on sys.path via /verif/.deps)

Input layout (so that seed files and the token dictionary act on the text directly):
    byte 0      query selector (7 positional methods, get_names, search, complete_search, get_syntax_errors)
    bytes 1-2   cursor selector: offset into the text modulo len+2; the last value is an out-of-range probe
    rest        the source text, decoded as UTF-8 with undecodable bytes dropped (surrogate-free by construction)

Every iteration drops jedi's and parso's in-memory caches first (fresh_script), asks ONE query, walks the documented
attributes of up to three result objects, and judges everything against the same exception contract as the Hypothesis
stage (vlib/props/c01.py:probe).  The target never lets an exception reach libFuzzer: a deviation whose signature is a
known finding is counted (excluded by construction, so that the campaign continues behind it); a new signature is
written once as OUTDIR/finding-<hash>.json in the replay-case format of C01 and the campaign goes on.  The parent
(c01.shard) turns those files into violations, which the runner confirms alone in a fresh process.

CORPUS_MODE: "empty" starts from nothing, "seeds" starts from small windows of the frozen corpus and idiom files.
"""
import os
import re
import sys
import json
import time
import hashlib
from pathlib import Path

VERIF = Path(__file__).resolve().parent.parent
sys.path.insert(0, str(VERIF / ".deps"))

GLOBAL_QUERIES = ["get_names", "search", "complete_search", "get_syntax_errors"]


def decode(data):
    if len(data) < 3:
        return None
    q = data[0]
    sel = data[1] | (data[2] << 8)
    text = data[3:].decode("utf-8", "ignore")
    return q, sel, text


def position_for(text, sel, split_lines):
    n = len(text)
    off = sel % (n + 2)
    lines = split_lines(text)
    if off == n + 1:
        # out of range: one past the last line, or one past the end of the last line
        if sel & 0x8000:
            return [len(lines) + 1, 0]
        return [len(lines), len(lines[-1]) + 1]
    pl = split_lines(text[:off])
    return [len(pl), len(pl[-1])]


def main():
    outdir = Path(sys.argv[1])
    mode = sys.argv[2]
    flags = sys.argv[3:]
    outdir.mkdir(parents=True, exist_ok=True)
    import atheris
    from vlib import boot, core, corpus, api, runner
    with atheris.instrument_imports(include=["jedi"]):
        jedi = boot.jedi_boot()
        import jedi.api.completion, jedi.api.helpers, jedi.api.classes, jedi.api.errors  # noqa
        import jedi.inference.syntax_tree, jedi.inference.imports  # noqa
    from vlib.props import c01

    known_sigs = {f["sig"] for f in runner.load_known("C01") if f.get("status") == "known"}
    methods = c01.POS_METHODS + GLOBAL_QUERIES
    stats = {"iterations": 0, "judged": 0, "discarded": {}, "classes": {}, "known_hits": {}, "nontrivial": 0,
             "inconclusive": 0, "samples": [], "new_sigs": []}
    seen_nontriv = set()
    new_sigs = set()
    t_last = [time.time()]

    def bump(d, k, n=1):
        d[k] = d.get(k, 0) + n

    def flush():
        tmp = outdir / "stats.json.tmp"
        tmp.write_text(json.dumps(stats))
        os.replace(tmp, outdir / "stats.json")

    def record(sig, detail, case):
        if sig in known_sigs:
            bump(stats["known_hits"], sig)
            return
        if sig in new_sigs:
            return
        new_sigs.add(sig)
        stats["new_sigs"].append(sig)
        name = "finding-%s.json" % hashlib.sha1(sig.encode()).hexdigest()[:12]
        (outdir / name).write_text(json.dumps({"sig": sig, "detail": detail, "case": case}))
        flush()

    def one(data):
        stats["iterations"] += 1
        d = decode(data)
        if d is None:
            bump(stats["discarded"], "short-input")
            return
        q, sel, text = d
        if corpus.nesting_depth(text) > 30:
            bump(stats["discarded"], "nesting>30")
            return
        m = methods[q % len(methods)]
        line, col = position_for(text, sel, corpus.split_lines)
        words = re.findall(r"\w+", text)
        search = words[sel % len(words)] if words else "x"
        if q & 0x40:
            search = search[: max(1, len(search) // 2)]
        case = {"origin": "atheris", "mut": ["fuzz:" + m], "text": text, "positions": [[line, col]], "search": search,
                "path": None}
        devs = []

        def dev(sig, detail):
            devs.append((sig, detail))

        walked = 0
        try:
            with core.time_limit(60):
                try:
                    s = boot.fresh_script(text)
                except Exception as e:
                    dev(api.bucket(e, "Script"), api.tb_tail(e))
                    s = None
                if s is not None:
                    if m in c01.POS_METHODS:
                        walked = c01.probe(s, text, m, line, col, dev, c01.bom_aware(text, dev), max_objs=3, depth=0)
                    else:
                        walked = c01.probe_global(s, m, search, dev, max_objs=3)
        except core.Inconclusive:
            stats["inconclusive"] += 1
            return
        stats["judged"] += 1
        for sig, detail in devs:
            record(sig, detail, case)
        where = c01.classify_pos(text, line, col) if m in c01.POS_METHODS else "global"
        bump(stats["classes"], "fuzz:query:" + m)
        bump(stats["classes"], "fuzz:pos:" + where)
        compilable = corpus.is_compilable(text)
        bump(stats["classes"], "fuzz:" + ("compilable" if compilable else "broken"))
        if walked:
            bump(stats["classes"], "fuzz:results-walked")
        if (not compilable) or walked or c01._strictly_inside_token(text, line, col):
            k = hashlib.sha1(data).digest()[:8]
            if k not in seen_nontriv:
                seen_nontriv.add(k)
                stats["nontrivial"] = len(seen_nontriv)
        if len(stats["samples"]) < 3 and walked and len(text) > 8:
            stats["samples"].append({"origin": "atheris", "query": m, "text": text[:300], "positions": [[line, col]],
                                     "result_objects_walked": walked})
        if time.time() - t_last[0] > 5 or stats["iterations"] % 250 == 0:
            t_last[0] = time.time()
            flush()

    corpus_dir = outdir / "corpus"
    corpus_dir.mkdir(exist_ok=True)
    if mode == "seeds":
        seeds = []
        for name, t in sorted(set(corpus.files())):
            ls = t.splitlines(keepends=True)
            if name.startswith("idioms/"):
                seeds.append("".join(ls[:40]))
            elif "completion/" in name or "refactor/" in name:
                for i in range(0, min(len(ls), 120), 40):
                    seeds.append("".join(ls[i:i + 12]))
        for i, t in enumerate(seeds[:400]):
            sel = (len(t) * 7919 + i * 31) % 65536
            (corpus_dir / ("seed-%03d" % i)).write_bytes(bytes([i % len(methods), sel & 255, sel >> 8]) + t.encode("utf8")[:1500])
    dict_file = outdir / "tokens.dict"
    toks = sorted(set(corpus.PY_TOKENS) | {"import ", "from ", "def ", "class ", "lambda ", "self.", "\n    ", "):\n",
                                           "async ", "await ", "yield ", "__init__", "*args", "**kwargs", "->", ":=",
                                           "@", "f\"{", "\\\n", "\r\n", "\t", "sys.version_info", "typing.",
                                           "\ufeff", "\x0c"})
    with open(dict_file, "w") as f:
        for t in toks:
            esc = "".join(chr(b) if (32 <= b < 127 and chr(b) not in '"\\') else "\\x%02x" % b for b in t.encode("utf8"))
            if esc:
                f.write('"%s"\n' % esc)
    argv = [sys.argv[0], str(corpus_dir), "-dict=%s" % dict_file, "-timeout=0", "-rss_limit_mb=0", "-max_len=2048",
            "-print_final_stats=1", "-artifact_prefix=%s/" % outdir] + flags
    atheris.Setup(argv, one)
    flush()
    try:
        atheris.Fuzz()
    finally:
        flush()


if __name__ == "__main__":
    main()
