/* Harness-only performance shim (no effect on what is tested).
 *
 * CPython 3.12 allocates its per-thread "data stack" in 16 KiB chunks through the arena allocator (mmap) and
 * releases a chunk as soon as the call depth drops below it.  jedi's deeply recursive inference crosses chunk
 * boundaries hundreds of thousands of times per minute, and on this 16-vCPU VM the resulting mmap/munmap storm
 * makes 16 parallel workers spend more time in the kernel than in Python.  This shim replaces the arena
 * allocator by one that keeps a small free list of 16 KiB chunks; everything else is passed to mmap/munmap,
 * so memory obtained before the switch is released correctly.
 */
#define _GNU_SOURCE
#include <Python.h>
#include <sys/mman.h>

#define CHUNK 16384
#define CACHE 256
static void *cache[CACHE];
static int ncache = 0;

static void *shim_alloc(void *ctx, size_t size) {
    if (size == CHUNK && ncache > 0) return cache[--ncache];
    void *p = mmap(NULL, size, PROT_READ | PROT_WRITE, MAP_PRIVATE | MAP_ANONYMOUS, -1, 0);
    return p == MAP_FAILED ? NULL : p;
}
static void shim_free(void *ctx, void *ptr, size_t size) {
    if (size == CHUNK && ncache < CACHE) { cache[ncache++] = ptr; return; }
    munmap(ptr, size);
}
int install(void) {
    PyObjectArenaAllocator a = {NULL, shim_alloc, shim_free};
    PyObject_SetArenaAllocator(&a);
    return 0;
}
