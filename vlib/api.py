"""Helpers over jedi's public API: attribute walk, result serialisation, exception bucketing."""
import traceback
from pathlib import Path

SCRIPT_POS_METHODS = ["complete", "infer", "goto", "help", "get_references", "get_signatures", "get_context"]
REPO_MARK = "/jedi/"


def bucket(e, entry):
    """(exception type, innermost frame inside jedi/ as file:function, API entry point)."""
    name = type(e).__name__
    if isinstance(e, RecursionError):
        return "crash:RecursionError:%s" % entry.split("->")[-1].split(".")[-1].split("(")[0]
    tb = traceback.extract_tb(e.__traceback__)
    fr = [f for f in tb if "/repo/jedi/" in f.filename or "/jedi/" in f.filename and "/verif/" not in f.filename]
    if fr:
        f = fr[-1]
        where = f.filename.split("/jedi/", 1)[-1] + ":" + f.name
        if "/parso/" in tb[-1].filename and tb[-1] is not f:
            # raised inside the parser library: name its frame too, so that two different parso failures reached
            # through the same jedi function stay two signatures ...
            pw = "parso/" + tb[-1].filename.split("/parso/", 1)[-1] + ":" + tb[-1].name
            if len(tb) >= 2 and "/parso/" in tb[-2].filename:
                # ... and when the failure lies two or more frames deep inside parso (not an accessor jedi called on the
                # wrong node) the parso frame alone is the root cause, whichever jedi function led there
                where = pw
            else:
                where += ">" + pw
    else:
        f = tb[-1] if tb else None
        where = (Path(f.filename).name + ":" + f.name) if f else "?"
    return "crash:%s@%s" % (name, where)


def tb_tail(e, n=7):
    return "".join(traceback.format_exception(type(e), e, e.__traceback__)[-n:])[-1800:]


def touch(obj, depth=1, out=None):
    """Call every documented attribute/method of a result object. Yields (entry, exception) pairs."""
    import jedi.api.classes as C
    errs = []

    def do(label, fn):
        try:
            return fn()
        except Exception as e:   # judged by the caller
            errs.append((label, e))
            return None

    kind = type(obj).__name__
    for a in ("name", "type", "module_name", "module_path", "line", "column", "description", "full_name"):
        do(kind + "." + a, lambda a=a: getattr(obj, a))
    do(kind + ".docstring", lambda: obj.docstring())
    do(kind + ".docstring(raw)", lambda: obj.docstring(raw=True))
    do(kind + ".docstring(slow)", lambda: obj.docstring(fast=False))
    do(kind + ".get_line_code", lambda: obj.get_line_code())
    do(kind + ".get_line_code(1,1)", lambda: obj.get_line_code(before=1, after=1))
    do(kind + ".is_stub", lambda: obj.is_stub())
    do(kind + ".in_builtin_module", lambda: obj.in_builtin_module())
    do(kind + ".is_side_effect", lambda: obj.is_side_effect())
    do(kind + ".get_definition_start_position", lambda: obj.get_definition_start_position())
    do(kind + ".get_definition_end_position", lambda: obj.get_definition_end_position())
    do(kind + ".get_type_hint", lambda: obj.get_type_hint())
    do(kind + ".repr", lambda: repr(obj))
    if isinstance(obj, C.Completion):
        do(kind + ".complete", lambda: obj.complete)
        do(kind + ".name_with_symbols", lambda: obj.name_with_symbols)
        do(kind + ".get_completion_prefix_length", lambda: obj.get_completion_prefix_length())
    if isinstance(obj, C.BaseSignature):
        ps = do(kind + ".params", lambda: obj.params) or []
        do(kind + ".to_string", lambda: obj.to_string())
        for p in ps[:6]:
            do("ParamName.name", lambda: p.name)
            do("ParamName.kind", lambda: p.kind)
            do("ParamName.to_string", lambda: p.to_string())
            do("ParamName.infer_default", lambda: p.infer_default())
            do("ParamName.infer_annotation", lambda: p.infer_annotation())
            do("ParamName.infer_annotation(noexec)", lambda: p.infer_annotation(execute_annotation=False))
    if isinstance(obj, C.Signature):
        do(kind + ".index", lambda: obj.index)
        do(kind + ".bracket_start", lambda: obj.bracket_start)
    if isinstance(obj, C.Name):
        do(kind + ".is_definition", lambda: obj.is_definition())
    subs = []
    r = do(kind + ".parent", lambda: obj.parent())
    if r is not None:
        subs.append(r)
    sigs = do(kind + ".get_signatures", lambda: obj.get_signatures()) or []
    subs.extend(sigs[:2])
    subs.extend((do(kind + ".goto", lambda: obj.goto()) or [])[:3])
    do(kind + ".goto(follow)", lambda: obj.goto(follow_imports=True, follow_builtin_imports=True))
    subs.extend((do(kind + ".infer", lambda: obj.infer()) or [])[:3])
    do(kind + ".infer(stubs)", lambda: obj.infer(prefer_stubs=True))
    subs.extend((do(kind + ".execute", lambda: obj.execute()) or [])[:2])
    if isinstance(obj, C.Name):
        subs.extend((do(kind + ".defined_names", lambda: obj.defined_names()) or [])[:3])
    if depth > 0:
        for s in subs:
            errs.extend(touch(s, depth - 1))
    return errs


def ser_name(n, with_complete=False):
    d = {
        "name": n.name, "type": n.type,
        "module_path": str(n.module_path) if n.module_path else None,
        "line": n.line, "column": n.column, "full_name": n.full_name, "description": n.description,
    }
    if with_complete:
        d["complete"] = n.complete
    return d


def ser_sig(s):
    return {"name": s.name, "index": s.index, "bracket_start": list(s.bracket_start) if s.bracket_start else None,
            "str": s.to_string(), "params": [[p.name, str(p.kind)] for p in s.params]}


def ser_result(method, res):
    import jedi.api.classes as C
    if method == "get_context":
        return [ser_name(res)]
    if method == "get_signatures":
        return [ser_sig(s) for s in res]
    if method == "get_syntax_errors":
        return [[e.line, e.column, e.until_line, e.until_column, e.get_message()] for e in res]
    out = [ser_name(r, with_complete=(method in ("complete", "complete_search"))) for r in res]
    return out
