"""G2 — run a generated project in a fresh interpreter and report what the probe variables really hold.

Nothing of the traced program is imported into the checking process; the child writes a JSON report.
"""
import os
import sys
import ast
import json
import signal
import subprocess
from pathlib import Path

PY = "/venv/bin/python"

CHILD = r'''
import sys, os, json, io, runpy, types, contextlib, traceback
proj, main, names_file, out_file = sys.argv[1:5]
sys.path.insert(0, proj)
os.chdir(proj)
names = json.load(open(names_file))
buf = io.StringIO()
exc = None
g = {}
try:
    with contextlib.redirect_stdout(buf), contextlib.redirect_stderr(io.StringIO()):
        g = runpy.run_path(os.path.join(proj, main), run_name="__main__")
except BaseException as e:
    exc = type(e).__name__ + ": " + str(e)[:200]
    tb = e.__traceback__
    while tb is not None and tb.tb_next is not None:
        tb = tb.tb_next
    g = dict(tb.tb_frame.f_globals) if tb is not None and tb.tb_frame.f_globals.get("__name__") == "__main__" else {}

SKIP = {"__module__", "__dict__", "__weakref__", "__doc__", "__qualname__", "__firstlineno__", "__static_attributes__",
        "__annotations__", "__slotnames__", "__orig_bases__", "__parameters__", "__abstractmethods__", "_abc_impl"}

def file_of_module(modname):
    if modname == "__main__":
        return os.path.join(proj, main)
    m = sys.modules.get(modname)
    f = getattr(m, "__file__", None)
    return f

def in_project(f):
    return bool(f) and os.path.abspath(f).startswith(os.path.abspath(proj) + os.sep)

def ident(t):
    """identity of a class / function / module object"""
    if isinstance(t, types.ModuleType):
        return {"what": "module", "module": t.__name__, "file": getattr(t, "__file__", None)}
    if isinstance(t, type):
        return {"what": "class", "module": t.__module__, "qualname": t.__qualname__, "file": file_of_module(t.__module__)}
    code = getattr(t, "__code__", None)
    return {"what": "function", "module": getattr(t, "__module__", None), "qualname": getattr(t, "__qualname__", None),
            "file": code.co_filename if code else None, "line": code.co_firstlineno if code else None}

def source_attrs(v):
    """attributes of v that are defined in the generated sources"""
    out = set()
    if isinstance(v, types.ModuleType):
        if in_project(getattr(v, "__file__", None)):
            out.update(k for k in vars(v) if not (k.startswith("__") and k.endswith("__")))
        return sorted(out)
    klass = v if isinstance(v, type) else type(v)
    for c in klass.__mro__:
        if in_project(file_of_module(c.__module__)):
            out.update(k for k in vars(c) if k not in SKIP)
    if not isinstance(v, type):
        try:
            out.update(vars(v))
        except TypeError:
            pass
    return sorted(out)

def describe(v):
    if isinstance(v, type):
        d = {"kind": "class", "target": ident(v)}
    elif isinstance(v, types.ModuleType):
        d = {"kind": "module", "target": ident(v)}
    elif isinstance(v, (types.FunctionType, types.BuiltinFunctionType)):
        d = {"kind": "function", "target": ident(v)}
    elif isinstance(v, types.MethodType):
        d = {"kind": "method", "target": ident(v.__func__)}
    else:
        d = {"kind": "instance", "target": ident(type(v))}
    try:
        d["attrs"] = source_attrs(v)
    except Exception:
        d["attrs"] = []
    if isinstance(v, (list, tuple, set, frozenset)) :
        d["elems"] = sorted({type(x).__module__ + "." + type(x).__qualname__ for x in v})
    if isinstance(v, (int, str, float, bool, type(None))):
        d["repr"] = repr(v)[:80]
    return d

report = {"stdout": buf.getvalue(), "exc": exc, "probes": {}}
for n in names:
    if n in g:
        try:
            report["probes"][n] = describe(g[n])
        except Exception as e:
            report["probes"][n] = {"kind": "error", "error": repr(e)}
json.dump(report, open(out_file, "w"))
'''


def write_project(root, files):
    root = Path(root)
    for rel, text in files.items():
        p = root / rel
        p.parent.mkdir(parents=True, exist_ok=True)
        p.write_text(text, encoding="utf-8", newline="")


def run(root, main, names, timeout=20, scratch=None):
    """Execute root/main in a fresh interpreter. Returns report dict or None on timeout."""
    scratch = Path(scratch or root).parent
    child = scratch / "_vp_child.py"
    if not child.exists():
        child.write_text(CHILD)
    names_file = scratch / ("_vp_names_%d.json" % os.getpid())
    out_file = scratch / ("_vp_out_%d.json" % os.getpid())
    names_file.write_text(json.dumps(list(names)))
    if out_file.exists():
        out_file.unlink()
    env = {"PATH": "/usr/bin:/bin", "PYTHONHASHSEED": "0", "PYTHONDONTWRITEBYTECODE": "1", "HOME": str(scratch)}
    try:
        p = subprocess.Popen([PY, "-I", "-X", "utf8", str(child), str(root), main, str(names_file), str(out_file)],
                             stdout=subprocess.DEVNULL, stderr=subprocess.PIPE, env=env, start_new_session=True)
        try:
            _, err = p.communicate(timeout=timeout)
        except subprocess.TimeoutExpired:
            os.killpg(p.pid, signal.SIGKILL)
            p.wait()
            return None
    finally:
        pass
    if not out_file.exists():
        return {"stdout": "", "exc": "child failed: " + err.decode("utf8", "replace")[-400:], "probes": {}}
    rep = json.loads(out_file.read_text())
    rep["rc"] = p.returncode
    return rep


def def_lines(text):
    """{qualname: line of the class/def statement} from ast (for mapping run-time identities to source lines)."""
    out = {}

    def visit(node, prefix, in_func):
        for ch in ast.iter_child_nodes(node):
            if isinstance(ch, (ast.ClassDef, ast.FunctionDef, ast.AsyncFunctionDef)):
                q = prefix + ch.name
                out.setdefault(q, ch.lineno)
                sep = ".<locals>." if isinstance(ch, (ast.FunctionDef, ast.AsyncFunctionDef)) else "."
                visit(ch, q + sep, True)
            else:
                visit(ch, prefix, in_func)
    visit(ast.parse(text), "", False)
    return out
