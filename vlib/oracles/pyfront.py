"""Oracles built on CPython's own front end (tokenize / ast), independent of parso.

All positions are (line, column) with 1-based lines and 0-based *character* columns in jedi's line model
(lines end at \\n, \\r\\n or a lone \\r).  CPython's tokenizer is fed an LF-normalised copy of the text, which
keeps every (line, column) unchanged.
"""
import io
import ast
import keyword
import tokenize
import unicodedata

HARD_KW = set(keyword.kwlist)


def lf(text):
    return text.replace("\r\n", "\n").replace("\r", "\n")


def tokens(text):
    return list(tokenize.generate_tokens(io.StringIO(lf(text)).readline))


def name_tokens(text, toks=None):
    """[(line, col, string)] of identifier tokens (NAME tokens that are not hard keywords)."""
    toks = toks or tokens(text)
    return [(t.start[0], t.start[1], t.string) for t in toks if t.type == tokenize.NAME and t.string not in HARD_KW]


def _char_col(lines, lineno, byte_off):
    s = lines[lineno - 1]
    return len(s.encode("utf-8")[:byte_off].decode("utf-8", "replace"))


def binding_positions(text):
    """Set of (line, col) of the identifier tokens that bind (see DESIGN.md C17)."""
    src = lf(text)
    tree = ast.parse(src)
    lines = src.split("\n")
    toks = [t for t in tokens(text) if t.type not in (tokenize.NL, tokenize.NEWLINE, tokenize.COMMENT, tokenize.INDENT,
                                                       tokenize.DEDENT, tokenize.ENDMARKER)]
    by_start = {t.start: i for i, t in enumerate(toks)}
    by_end = {t.end: i for i, t in enumerate(toks)}
    out = set()

    def pos(node):
        return node.lineno, _char_col(lines, node.lineno, node.col_offset)

    def endpos(node):
        return node.end_lineno, _char_col(lines, node.end_lineno, node.end_col_offset)

    def toks_between(a, b):
        return [t for t in toks if a <= t.start and t.end <= b]

    # def / class names: NAME following the keyword
    for i, t in enumerate(toks[:-1]):
        if t.type == tokenize.NAME and t.string in ("def", "class") and toks[i + 1].type == tokenize.NAME:
            out.add(toks[i + 1].start)

    for node in ast.walk(tree):
        if isinstance(node, ast.Name) and isinstance(node.ctx, (ast.Store, ast.Del)):
            out.add(pos(node))
        elif isinstance(node, ast.Attribute) and isinstance(node.ctx, (ast.Store, ast.Del)):
            i = by_end.get(endpos(node))
            if i is not None:
                out.add(toks[i].start)
        elif isinstance(node, ast.arg):
            out.add(pos(node))
        elif isinstance(node, (ast.Import, ast.ImportFrom)):
            seg = toks_between(pos(node), endpos(node))
            k = next(i for i, t in enumerate(seg) if t.string == "import" and t.type == tokenize.NAME)
            parts, cur = [], []
            for t in seg[k + 1:]:
                if t.string in "()" and t.type == tokenize.OP:
                    continue
                if t.string == "," and t.type == tokenize.OP:
                    parts.append(cur)
                    cur = []
                else:
                    cur.append(t)
            parts.append(cur)
            for p in parts:
                names = [t for t in p if t.type == tokenize.NAME]
                if not names:
                    continue
                if any(t.string == "as" for t in names):
                    out.add(names[-1].start)
                elif isinstance(node, ast.Import):
                    out.add(names[0].start)
                else:
                    out.add(names[-1].start)
        elif isinstance(node, ast.ExceptHandler) and node.name:
            end = pos(node.body[0]) if node.body else endpos(node)
            seg = toks_between(pos(node), end)
            for i in range(len(seg) - 1, 0, -1):
                if seg[i - 1].string == "as" and seg[i].type == tokenize.NAME:
                    out.add(seg[i].start)
                    break
    return out


def scope_chain_map(text):
    """For C18: list of (kind, name, header_start, body_start, end, chain) for every def/class, where
    positions are (line, col) and chain is the list of enclosing def/class names outermost first (excluding itself)."""
    src = lf(text)
    tree = ast.parse(src)
    lines = src.split("\n")
    out = []

    def visit(node, chain):
        for ch in ast.iter_child_nodes(node):
            if isinstance(ch, (ast.FunctionDef, ast.AsyncFunctionDef, ast.ClassDef)):
                kind = "class" if isinstance(ch, ast.ClassDef) else "function"
                first = ch.body[0]
                # a docstring/expression body starts at its own position; decorators precede the header
                out.append({
                    "kind": kind, "name": ch.name,
                    "start": (ch.lineno, _char_col(lines, ch.lineno, ch.col_offset)),
                    "deco_start": (ch.decorator_list[0].lineno, 0) if ch.decorator_list else None,
                    "body_start": (first.lineno, _char_col(lines, first.lineno, first.col_offset)),
                    "end": (ch.end_lineno, _char_col(lines, ch.end_lineno, ch.end_col_offset)),
                    "chain": list(chain),
                    "async": isinstance(ch, ast.AsyncFunctionDef),
                    "one_line": first.lineno == ch.lineno,
                    "decorated": bool(ch.decorator_list),
                })
                visit(ch, chain + [(kind, ch.name)])
            else:
                visit(ch, chain)
    visit(tree, [])
    return out


def definition_ranges(text):
    """{(line, col) of a binding name token: (set of acceptable starts, end)} for def/class names and for the
    Name/Attribute targets of assignment statements (Assign/AnnAssign/AugAssign), from ast."""
    src = lf(text)
    tree = ast.parse(src)
    lines = src.split("\n")
    toks = [t for t in tokens(text) if t.type == tokenize.NAME]
    out = {}

    def pos(node):
        return node.lineno, _char_col(lines, node.lineno, node.col_offset)

    def endpos(node):
        return node.end_lineno, _char_col(lines, node.end_lineno, node.end_col_offset)

    def_name_at = {}
    for i, t in enumerate(toks[:-1]):
        if t.string in ("def", "class"):
            def_name_at[(t.start[0], unicodedata.normalize("NFKC", toks[i + 1].string))] = (t.start, toks[i + 1].start)
    by_end = {t.end: t for t in toks}
    for node in ast.walk(tree):
        if isinstance(node, (ast.FunctionDef, ast.AsyncFunctionDef, ast.ClassDef)):
            hit = def_name_at.get((node.lineno, node.name))
            if hit is None:      # 'async' and 'def' on different lines (continuation) or NFKC-normalised name
                continue
            kw_pos, name_pos = hit
            out[name_pos] = ({pos(node), kw_pos}, endpos(node))
        elif isinstance(node, (ast.Assign, ast.AnnAssign, ast.AugAssign)):
            targets = node.targets if isinstance(node, ast.Assign) else [node.target]
            stack = list(targets)
            while stack:
                t = stack.pop()
                if isinstance(t, (ast.Tuple, ast.List)):
                    stack.extend(t.elts)
                elif isinstance(t, ast.Starred):
                    stack.append(t.value)
                elif isinstance(t, ast.Name):
                    out[pos(t)] = ({pos(node)}, endpos(node))
                elif isinstance(t, ast.Attribute):
                    tk = by_end.get(endpos(t))
                    if tk is not None:
                        out[tk.start] = ({pos(node)}, endpos(node))
    return out
